#!/bin/sh
# usage: run_all.sh [seed] [tier]  - every registered check on /repo, one line per check
seed=${1:-0}; tier=${2:-quick}
cd "$(dirname "$0")/.." || exit 2
for id in C01 C02 C03 C04 C05 C06 C07 C08 C09 C10 C11 C12 C13 C14 C15 C16 C17 C18 C19 C20; do
  s=$(date +%s)
  out=$(VERIF_SEED=$seed ./check $id --tier $tier 2>/dev/null | grep -a -E "^OK|^VIOLATION|^MACHINERY|^KNOWN" | head -3 | tr '\n' ' ')
  echo "$id rc=$? $(( $(date +%s) - s ))s $out"
done
