#!/usr/bin/env python3
"""seeded/README.md: one line per seeded change with what it needs and which check caught it (from RESULTS.json)."""
import json, os, glob
ROOT = '/verif/seeded'
res = json.load(open(ROOT + '/RESULTS.json'))
rows = []
sup = set(os.path.basename(d) for d in glob.glob(ROOT + '/C*') if json.load(open(d + '/meta.json')).get('superseded_by'))
for d in sorted(glob.glob(ROOT + '/C*')):
    n = os.path.basename(d)
    m = json.load(open(d + '/meta.json'))
    r = res.get(n, {})
    caught = [c for c, v in r.get('checks', {}).items() if v.get('detected')]
    key = ''
    for c in caught:
        k = r['checks'][c].get('first_key') or ['']
        key = k[0][:110].replace('|', '/')
    summ = ' '.join(str(m.get('summary', '')).split())[:160].replace('|', '/')
    need = ' '.join(str(m.get('needs', '')).split())[:140].replace('|', '/')
    if m.get('superseded_by'):
        verdict = 'superseded: ' + ' '.join(m['superseded_by'].split())[:200].replace('|', '/')
    else:
        verdict = (', '.join(caught) + ': ' + key) if caught else '**not detected**'
    rows.append('| %s | %s | %s | %s | %s |' % (n, m.get('property'), summ, need, verdict))
out = ['# Seeded changes', '',
       'Independent sub-agents (given only the property text and a scratch worktree) wrote these changes; each keeps the',
       'repository suite green and breaks its property only under specific conditions.  `tools/verify_seed.sh` confirmed each',
       '(applies, suite unchanged, demo fails with / passes without); `tools/run_seeds.py` applies each in a scratch clone and',
       ('runs the quick check(s) named in its meta.json (results in RESULTS.json: %d of %d live seeds detected; %d superseded by a '
        'later repair of /repo - they no longer apply or no longer change behaviour).') % (
           sum(1 for n, r in res.items() if r.get('detected') and n not in sup), len([n for n in res if n not in sup]), len(sup)), '',
       '| seed | property | change | needs | caught by: first divergence reported |', '|---|---|---|---|---|'] + rows
open(ROOT + '/README.md', 'w').write('\n'.join(out) + '\n')
print(len(rows), 'rows')
