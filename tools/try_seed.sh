#!/bin/sh
# usage: try_seed.sh <patch> <check id>...   applies patch to /repo, runs the checks (quick), reverts
p=$1; shift
cd /repo || exit 2
git diff --quiet || { echo "repo dirty"; exit 2; }
git apply "$p" || git apply -3 "$p" || { echo "PATCH DOES NOT APPLY"; git checkout -- . ; exit 3; }
for id in "$@"; do
  (cd /verif && ./check $id 2>&1 | grep -E "VIOLATION|^OK|KNOWN|MACHINERY|^  " | head -3)
done
git reset -q --hard HEAD ; git status --short | head -3
