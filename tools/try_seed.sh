#!/bin/sh
# usage: try_seed.sh <patch> <check id>...   applies the patch in a scratch worktree of /repo HEAD
# (never in /repo), runs the quick checks against it (TXDBUS_REPO), removes the worktree
p=$(realpath "$1"); shift
wt=/tmp/ts-$$
git -C /repo worktree add -q --detach $wt HEAD || exit 2
(cd $wt && (git apply "$p" 2>/dev/null || git apply -3 "$p")) || { echo "PATCH DOES NOT APPLY"; git -C /repo worktree remove --force $wt; exit 3; }
for id in "$@"; do
  (cd /verif && TXDBUS_REPO=$wt TXV_EVIDENCE_DIR=$wt/.ev TXV_REPLAY_DIR=$wt/.rp ./check $id 2>&1 | grep -E "VIOLATION|^OK|KNOWN|MACHINERY|^  " | head -4)
done
git -C /repo worktree remove --force $wt
