#!/usr/bin/env python3
"""Regenerates MANIFEST.json from the table below (single source of truth for the interface)."""
import json
import os

ROOT = os.path.dirname(os.path.dirname(os.path.abspath(__file__)))
ids = [json.loads(l)['id'] for l in open(os.path.join(ROOT, 'properties.jsonl'))]

CHECKS = {
    'C08': dict(
        technique='TLA+ spec Calls.tla model-checked by TLC; graph paths replayed into the real client '
                  '(spec->code) and recorded executions validated by TLC (code->spec)',
        text='TLC exhaustively checks the pending-call state machine (all interleavings of issue/reply/error/'
             'expiry/duplicate/unsolicited/loss for N<=3 (4 in thorough) calls); every bounded path and every edge '
             'of that graph is executed on a real DBusClientConnection and the projected state compared after each '
             'callback; random executions with up to 40 concurrent calls are validated against the spec by TLC.',
        design_ref='DESIGN.md section 3 (C08)',
        note='Trusts: TLC, Twisted task.Clock as the reactor, the in-memory transport; bounded N in the model; '
             'pending table is read from conn._pendingCalls.'),
    'C04': dict(
        technique='TLA+ spec Framing.tla (all partitions of the stream) model-checked by TLC; cut paths replayed into '
                  'a real protocol object; long coalesced streams recorded and validated by TLC',
        text='For concrete message streams (mixed byte order, CR LF planted in headers and bodies, handshake tail in the '
             'same stream, client/server/already-authenticated roles) TLC explores every partition into reads and checks '
             'that delivery is a function of the bytes received; every single cut, double cuts, byte-at-a-time and '
             'whole-stream reads are executed on real BasicDBusProtocol/DBusClientConnection objects and compared step by '
             'step; streams of up to 1200 (5000 thorough) messages in one read - and a stream holding a message of exactly the '
             'maximum length, 2^27 bytes - are recorded and validated against the spec.',
        design_ref='DESIGN.md section 3 (C04)',
        note='Trusts: TLC, the in-memory transport, a stub authenticator (except instance "real"); message content itself is '
             'checked by C03.'),
    'C20': dict(
        technique='TLA+ specs Framing.tla (descriptor queue) and FdSend.tla model-checked by TLC; arrival/read '
                  'interleavings replayed into a real receiver; real senders validated and chained into receivers',
        text='TLC explores all interleavings of descriptor arrival and reads (stream-socket rule as enabling condition) '
             'and checks attribution and queue contents; boundary double cuts x every legal arrival placement are '
             'replayed on a real protocol object (messages of all four types carrying 0-3 descriptors, permuted indexes, '
             'both byte orders, descriptors arriving during the handshake); real senders (callRemote, sendMessage) are '
             'validated against FdSend.tla and their output is fed to a real receiver under random schedules.',
        design_ref='DESIGN.md section 3 (C20)',
        note='Trusts: TLC; descriptors are integers on in-memory transports (no kernel); the arrival rule of the property '
             'is assumed, not tested.'),
    'C01': dict(
        technique='TLA+ reference codec Wire.tla; TLC enumerates the case space (one reachable state = one '
                  'implementation test) and decides recorded random cases',
        text='Every state of MC_Wire (types to depth 3 incl. variants/dicts/structs/sequences x boundary values x '
             'offsets 0..7 x both byte orders, reference codec self-checked by TLC invariants) is encoded and decoded '
             'by txdbus.marshal and compared (value and byte counts, several Python spellings of the same value); random '
             'cases beyond the model (nesting 31, 400-element arrays) are recorded and decided by TLC.',
        design_ref='DESIGN.md section 3 (C01/C02)',
        note='Trusts: TLC; scalars are opaque limb tuples (numeric meaning of struct formats / UTF-8 only via boundary '
             'values converted by the harness); UNIX_FD covered by C20.'),
    'C02': dict(
        technique='TLA+ reference codec Wire.tla (written from the DBus specification); byte-for-byte comparison in '
                  'both directions; recorded random cases decided by TLC evaluating Enc',
        text='Same case space as C01; the implementation must produce exactly the reference bytes and must decode the '
             'reference bytes (catches symmetric errors); alignment/zero-padding/array-length rules are invariants of the '
             'reference checked by TLC.',
        design_ref='DESIGN.md section 3 (C01/C02)',
        note='Trusts: TLC and the transcription of the DBus specification in Wire.tla (self-checked: Dec(Enc(v)) = v, '
             'alignment, linear step count).'),
    'C03': dict(
        technique='TLA+ spec Message.tla (EncMsg / ParseMsg / WellFormed over Wire.tla); TLC generates foreign bytes and '
                  'judges constructed bytes',
        text='TLC enumerates messages (4 types x optional-field subsets x field orders x unknown field x flags x bodies x '
             'byte order x signature position); the implementation parses each reference encoding (compared with the '
             'model) and builds each constructible one (bytes judged by WellFormed/Recovered in TLC, serial counter '
             'included); random messages both ways (foreign bytes with undefined flag bits judged against the reference parser, TraceParseAny); parsed messages serialised again with the sender stamped (TraceResent); runs of '
             'descriptor-carrying calls; names that already served in another role; size limit via overridable _maxMsgLen '
             '(real 128 MiB in thorough).',
        design_ref='DESIGN.md section 3 (C03)',
        note='Trusts: TLC; constructed field order is not prescribed (judged by reference parser); names validity is C18.'),
    'C05': dict(
        technique='TLA+ spec Decoder.tla (step-counting reference decoder, generator machine over byte strings, Bounded '
                  'invariant, ZeroOK deviation); implementation decodes under a call counter; TLC judges recorded work',
        text='TLC decodes every byte string up to the bound over a small alphabet under hostile types (zero-size elements, '
             'nested arrays, variants) and checks the linear step bound - and that the repaired defect (zero-size array '
             'elements) violates it as a deviation; the implementation decodes the same inputs plus every truncation, bit '
             'flip and length lie of a message corpus and grammar-directed hostile signatures under an interpreter call '
             'counter with abort, and grammar-directed sibling-container signatures and header count lies in a CPU-limited child '
             'process recording CPU time and peak allocation; the recorded work (calls, CPU, memory) is judged against the linear '
             'bound by TLC; valid messages decoded in between must decode as before (isolation), also when a hostile message was '
             'the first of its signature; copy work, a scaling pair and header arrays repeating one field are measured; on a '
             'real bus every hostile input (length lies, honest frames with malformed bodies) arrives on a connection of its own '
             'and a third client\'s signal must still reach a real victim client.',
        design_ref='DESIGN.md section 3 (C05)',
        note='Trusts: call events (<= 40 per abstract step + 400), CPU time (<= 5 ms per step + 1 s) and tracemalloc peak '
             '(<= 4 KB per step + 4 MB) as measures of work; any Python exception counts as rejection.'),
    'C18': dict(
        technique='TLA+ spec Validators.tla (grammar and automaton over character classes, generator machine); one '
                  'implementation test per reachable string; random long strings judged by TLC',
        text='Every string up to length 5 (6 thorough) over 9 character classes and the 253..258 length boundary is a '
             'reachable state (TLC checks grammar = automaton); each is instantiated with rotating concrete characters and '
             'given to the five validators and to every message-constructor slot; random long strings are judged by TLC.',
        design_ref='DESIGN.md section 3 (C18)',
        note='Trusts: validators depend on characters only through their class.'),
    'C19': dict(
        technique='TLA+ spec Signature.tla (grammar enumeration of signatures, value shapes, InferenceOK predicate); '
                  'implementation outputs judged by TLC',
        text='TLC enumerates every valid signature up to 7 (8) characters and cross-checks the decomposition with an '
             'independent parser; the implementation must split each the same way (also through DBusInterface argument '
             'counts); value shapes to depth 2 (3) and random deeper ones are built, and the inferred signature plus variant '
             'round trip are judged by TLC: single complete type, wrapper exactness, fit and equality inside the claim.',
        design_ref='DESIGN.md section 3 (C19)',
        note='Trusts: TLC; signatures enumerated over basic codes y,s,v; NaN / NUL strings / mixed dict keys outside the claim.'),
    'C15': dict(
        technique='TLA+ spec Introspect.tla (XML event stream, SAX handler automaton, known-interface cache as a history '
                  'machine); graph edges/walks replayed on the real classes; recorded histories validated by TLC',
        text='TLC explores all histories of declare / parse-with-or-without-replacement over 2 interface names (object '
             'identities tracked) and a wide single-parse space (5544 definitions x register x replace) with the round-trip '
             'action property; every edge and random walks are executed on real DBusInterface / generateIntrospectionXML / '
             'getInterfacesFromXML objects and compared (members, signatures, counts, access, reuse by identity, cache); '
             'proxies on parsed interfaces are probed for the argument counts they accept; random definitions over 16 '
             'types and longer histories are validated by TLC.',
        design_ref='DESIGN.md section 3 (C15)',
        note='Trusts: TLC; complete types are opaque strings here (splitting is C19); standard DBus interfaces filtered.'),
    'C06': dict(
        technique='TLA+ specs AuthServer.tla (finite server automaton, stub and real mechanism semantics) and CookieJar.tla '
                  '(several connections on one keyring) model-checked by TLC; graphs replayed on real BusProtocols; recorded '
                  'line streams and histories validated by TLC',
        text='The automaton is finite, so TLC covers all line sequences of any length (Safety: authenticated only after an '
             'accepting mechanism and BEGIN; rejection limit; close rules; wrong cookie never accepted; cookie lifecycle). Every '
             'edge, all paths to depth 3 (4), long random walks and coalesced reads (several lines, NUL byte and post-close '
             'traffic in one read) are replayed on a real BusProtocol/BusAuthenticator with scripted stub mechanisms and with '
             'the real EXTERNAL / DBUS_COOKIE_SHA1 (temporary keyring, independently computed responses) / ANONYMOUS '
             'mechanisms; random line streams split across reads are validated by TLC. CookieJar.tla: 3 (4) connections of one '
             'user sharing the keyring file (challenge / conforming or wrong answer / cancel / drop / expiry; unique live ids, own '
             'cookie found, conforming accepted, wrong never accepted, no collateral removal, no leak; the delete-by-id deviation '
             'must violate NoCollateral), edge-cover tours and walks replayed on real BusProtocols with a temporary keyring.',
        design_ref='DESIGN.md section 3 (C06)',
        note='Trusts: TLC; fake SO_PEERCRED; exceptions escaping dataReceived are projected as close.'),
    'C07': dict(
        technique='TLA+ specs AuthClient.tla (finite client automaton) and AuthPair.tla (client x reference server, liveness '
                  'under fairness) model-checked by TLC; graphs replayed on a real DBusClientConnection',
        text='TLC explores the client automaton completely (UNIX / non-UNIX transport, cookie readable or not): BEGIN only '
             'after a valid OK and an answered descriptor negotiation, mechanisms offered once in preference order, never '
             'silent, closes only for a reason; the composition with a reference server completes for every accepted subset '
             '(liveness). Every edge, all paths to depth 4 (6) and every pair behaviour are replayed on a real client (Hello '
             'must follow BEGIN, nothing binary before); the real built-in bus is used as peer on both transports; random line '
             'streams split across reads are validated by TLC.',
        design_ref='DESIGN.md section 3 (C07)',
        note='Trusts: TLC; HOME is pointed at a scratch keyring; exceptions escaping dataReceived are projected as close.'),
    'C12': dict(
        technique='TLA+ spec Router.tla (Matches from the DBus specification, generator over rules x message universe, '
                  'add/remove/route history machine); TLC-computed match sets compared with the real routers',
        text='For each of 1440 rules TLC computes the exact subset of a 724-message universe it matches (near misses on every '
             'key, sibling paths sharing a textual prefix, missing / non-string arguments, argument paths with and without '
             'trailing slash, all message types) and the constraints its rule text must express; the real MessageRouter, the '
             'client addMatch path (rule text parsed and compared) and the bus rule parser + router must reproduce them. '
             'An add/remove/route history machine (raising callbacks, id freshness) is explored exhaustively and replayed on a '
             'real client connection (distinct callables, one shared callable, self-removing callbacks); random rules over a '
             'larger value space and proxy subscriptions are judged by TLC; Signals.tla runs emitSignal -> built-in bus -> '
             'notifyOnSignal / cancelSignalNotification end to end on real clients (two deviations of the code named as constants).',
        design_ref='DESIGN.md section 3 (C12)',
        note='Trusts: TLC; sender= and arg0namespace are outside the property; only argument index 0 is modelled.'),
    'C16': dict(
        technique='TLA+ spec ObjTree.tla (paths as element sequences, remote view as a function of the export set) '
                  'model-checked by TLC; graph edges and walks replayed on a real DBusObjectHandler; histories validated by TLC',
        text='TLC explores every export/unexport history over 6 paths (parent, child, grandchild, siblings sharing a textual '
             'prefix, root) x 2 object classes; after every step Introspect, GetManagedObjects and an ordinary call are sent '
             'to every path of the universe through handleMethodCallMessage and compared with the model view (children names, '
             'failure for paths with neither object nor descendants, managed objects with interfaces and readable properties, '
             'UnknownObject), as is the InterfacesAdded/Removed signal of the step; random histories over 9 paths are validated by TLC.',
        design_ref='DESIGN.md section 3 (C16)',
        note='Trusts: TLC; two object classes stand for all interface/property combinations.'),
    'C17': dict(
        technique='TLA+ spec Props.tla (declaration table, Get/Set/GetAll/Assign history machine) model-checked by TLC; graph '
                  'replayed through handleMethodCallMessage; recorded histories validated by TLC',
        text='TLC explores all histories of local assignment and remote Get/Set/GetAll (right, empty and unknown interface; '
             'right and unknown property) over eight declarations: same name on two interfaces, declarations split between a base '
             'class and a subclass, all access modes and notification modes, basic types incl. a double holding a Python int. '
             'Every edge and random walks are replayed on a real exported object; the variant type is read from the raw reply '
             'bytes, PropertiesChanged from sendMessage; random histories with more values are validated by TLC.',
        design_ref='DESIGN.md section 3 (C17)',
        note='Trusts: TLC; interface "" only with names declared once; one object shape.'),
    'C10': dict(
        technique='TLA+ spec Objects.tla (dispatch decision tree, replies, Deferred completion as a history machine) '
                  'model-checked by TLC; graph replayed through handleMethodCallMessage; recorded streams validated by TLC',
        text='TLC explores every call shape (right / missing / wrong / unknown interface, unknown member, wrong signature, '
             'unknown path, reply expected or not) against a catalogue of 16 method bindings (dbus_<name> and decorator bindings '
             'of one member on two interfaces, inherited interface, dbusCaller users, value / tuple / struct / single-element '
             'array / None / Deferred / named, unnamed, badly named and NUL-carrying exceptions / unencodable and wrong-arity '
             'values) and all interleavings of up to 3 calls with Deferreds firing or failing later (at most one reply, '
             'addressed, exactly one when settled, none when flagged, user code ran iff dispatched). Every edge and random '
             'walks are replayed on a real DBusObjectHandler; random streams are validated by TLC.',
        design_ref='DESIGN.md section 3 (C10)',
        note='Trusts: TLC; undispatched calls flagged no-reply are outside the model (property allows 0 or 1 reply).'),
    'C13': dict(
        technique='TLA+ spec Bus.tla (name table: queues, flags, reply codes, signals) model-checked by TLC with action '
                  'properties; graphs replayed on a real Bus through two drivers (message bytes; real clients using the client '
                  'API); recorded histories validated by TLC',
        text='TLC explores all histories of Hello / RequestName (8 flag combinations) / ReleaseName / GetNameOwner / '
             'ListQueuedOwners / disconnect for 2 clients with a reconnection (reply soundness, replacement only if agreed, '
             'succession, released-is-gone, no dead or duplicate queue entries) and for 3 clients; every edge and random walks of '
             'the 2-client graph and sampled (thorough: all) edge-cover tours and walks of the 3-client graph are replayed on a '
             'real Bus, comparing every reply and signal each client receives - once with scripted message bytes, once with real '
             'DBusClientConnections using requestBusName / releaseBusName / getNameOwner / listQueuedBusNameOwners / disconnect; '
             'random histories with up to 4 (6) clients on 2 names are validated by TLC.',
        design_ref='DESIGN.md section 3 (C13)',
        note='Trusts: TLC; a replaced owner leaves the queue (as code); the table is observed through replies and signals only.'),
    'C14': dict(
        technique='TLA+ spec Bus.tla (unique names, routing, sender stamping, rules, broadcast) model-checked by TLC; graph '
                  'replayed on a real Bus; recorded histories validated by TLC',
        text='TLC explores all histories of connects (incl. a non-Hello first call), disconnects, name changes, unicast messages '
             'of all four types to well-known and unique names with forged senders, calls and signals to the bus itself, '
             'AddMatch / RemoveMatch and broadcasts for 2 clients with a reconnection (unique names fresh and never reused, '
             'nothing delivered to dead connections); every edge and random walks are replayed on a real Bus comparing, field by '
             'field, everything each connection receives; random histories with up to 4 clients, 2 names, 6 rules and 3 signals '
             'are validated by TLC; a sample of the delivered bytes (every kind x byte order x flags x forged or not, bodies with '
             'typed variants) is parsed by the reference parser of Message.tla (forwarded = sent except SENDER; well-formed).',
        design_ref='DESIGN.md section 3 (C14)',
        note='Trusts: TLC; one action per message the bus reads (its read order is the delivery interleaving); broadcasts are '
             'compared copy for copy (one per matching rule), stronger than the set of connections the property names.'),
    'C09': dict(
        technique='TLA+ spec ConnLife.tla (endpoint walk, handshake / Hello outcome, calls, callbacks, proxies, crash points) '
                  'model-checked by TLC; graphs replayed on the real connect() path over MemoryReactorClock; fault sequences '
                  'validated by TLC',
        text='For every reachability pattern of address lists with up to 3 endpoints (unix path / abstract, tcp, nonce-tcp, an '
             'ignored launchd entry; refused / DNS / timeout failures) TLC explores all orders of endpoint results, handshake '
             'and Hello outcomes, calls with and without deadline, callback registration on the connection and on explicit / '
             'introspected proxies of the same object, proxy release, and the transport closing at every point (Deferred fires '
             'exactly once, first reachable address, loss fails all pending work, callbacks once, silence afterwards). Every edge '
             'and random walks are replayed on the real txdbus.client.connect; random fault sequences on longer lists are '
             'validated by TLC.',
        design_ref='DESIGN.md section 3 (C09)',
        note='Trusts: TLC, twisted MemoryReactorClock; nonce-tcp is connected like tcp; handshake lines are scripted (C07).'),
    'C11': dict(
        technique='TLA+ spec EndToEnd.tla (caller, bus, exporter over four byte links; deliveries with read splitting and '
                  'coalescing) model-checked by TLC incl. liveness under fair delivery; schedules replayed on real clients and a '
                  'real bus; recorded schedules validated by TLC',
        text='TLC checks that the method runs exactly once with the call\'s own argument, that the completion is what the method '
             'produced (value or mirrored error) and - under fair delivery - that every call completes, over all delivery '
             'interleavings of 1-3 concurrent calls with prefix deliveries and coalesced reads on the four links; every edge and '
             'random walks are replayed on real DBusClientConnections attached to a real Bus (explicit and introspected proxies, '
             'UNIX and non-UNIX transports, three return shapes, raising methods); random schedules with 3 concurrent calls and '
             '2-4 clients are validated by TLC.',
        design_ref='DESIGN.md section 3 (C11)',
        note='Trusts: TLC; in-memory byte links; connection setup runs to quiescence before the modelled part; value fidelity '
             'is C01/C02.'),
}

NOT_YET = 'check not built yet (build in progress; see DESIGN.md section 6)'


def main():
    checks = []
    for pid in ids:
        if pid not in CHECKS:
            continue
        c = CHECKS[pid]
        checks.append(dict(
            property_id=pid,
            quick_cmd='./check %s --tier quick' % pid,
            thorough_cmd='./check %s --tier thorough' % pid,
            evidence_file='/verif/evidence/%s.json' % pid,
            replay_cmd_template='./check %s --replay {path}' % pid,
            engine='tlc+conformance',
            level_claimed=dict(category='model_checking', text=c['text'], design_ref=c['design_ref']),
            level_note=c['note'],
            technique=c['technique']))
    m = dict(
        version=1,
        setup_cmd='cd /verif && ./tools/setup.sh',
        hooks=dict(guard='TXDBUS_VERIF',
                   enable='no source hooks are needed: every observation uses plain attributes, in-memory '
                          'transports and a virtual clock; checks export TXDBUS_VERIF=1 anyway',
                   baseline_off_cmd='cd /repo && /venv/bin/python -m pytest -q -p no:cacheprovider --timeout=900',
                   source_commits=[], add_only=True),
        engines=[dict(name='tlc+conformance', path='/verif/check',
                      serves_properties=[c['property_id'] for c in checks],
                      kind_free_text='TLA+ specifications in spec/ checked by TLC 1.8 (exhaustive, graph dump, '
                                     'trace validation) bound to the implementation by harness/*.py')],
        checks=checks,
        not_applicable=[dict(property_id=i, reason=NOT_YET) for i in ids if i not in CHECKS],
        notes='See DESIGN.md.  Known findings: findings/known_findings.json.')
    json.dump(m, open(os.path.join(ROOT, 'MANIFEST.json'), 'w'), indent=1)
    print('MANIFEST.json: %d checks, %d not applicable' % (len(checks), len(m['not_applicable'])))


if __name__ == '__main__':
    main()
