#!/bin/sh
# Offline setup: nothing to build (pure Python + TLA+); just verify the tools are present.
set -e
cd "$(dirname "$0")/.."
java -version >/dev/null 2>&1
test -f /opt/veriftools/tla/tla2tools.jar
/venv/bin/python -c "import twisted, sys; sys.path.insert(0, '/repo'); import txdbus"
mkdir -p evidence replays
echo setup ok
