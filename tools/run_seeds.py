#!/usr/bin/env python3
"""Run every kept seeded change against the quick check of its property; write seeded/RESULTS.json.
usage: run_seeds.py [name-prefix ...]"""
import json
import os
import subprocess
import sys
import time

ROOT = '/verif'
names = sorted(d for d in os.listdir(ROOT + '/seeded') if os.path.isdir(ROOT + '/seeded/' + d))
if len(sys.argv) > 1:
    names = [n for n in names if any(n.startswith(p) for p in sys.argv[1:])]
resf = ROOT + '/seeded/RESULTS.json'
results = json.load(open(resf)) if os.path.exists(resf) else {}
assert subprocess.run(['git', '-C', '/repo', 'diff', '--quiet']).returncode == 0, '/repo dirty'
for n in names:
    meta = json.load(open('%s/seeded/%s/meta.json' % (ROOT, n)))
    pid = meta['property']
    checks = meta.get('checks', [pid])
    patch = '%s/seeded/%s/patch.diff' % (ROOT, n)
    ok = subprocess.run(['git', '-C', '/repo', 'apply', patch]).returncode == 0 or \
        subprocess.run(['git', '-C', '/repo', 'apply', '-3', patch]).returncode == 0
    if not ok:
        results[n] = dict(applied=False)
        subprocess.run(['git', '-C', '/repo', 'reset', '-q', '--hard', 'HEAD'])
        continue
    try:
        r = {}
        for c in checks:
            t = time.time()
            p = subprocess.run(['./check', c], cwd=ROOT, stdout=subprocess.PIPE, stderr=subprocess.STDOUT)
            out = p.stdout.decode()
            first = [l for l in out.split('\n') if l.startswith('VIOLATION')]
            key = [l.strip() for l in out.split('\n') if l.startswith('  ')][:1]
            r[c] = dict(exit=p.returncode, detected=p.returncode == 1 and bool(first), first_key=key,
                        wall_s=round(time.time() - t, 1))
        results[n] = dict(applied=True, property=pid, checks=r,
                          detected=any(v['detected'] for v in r.values()))
    finally:
        subprocess.run(['git', '-C', '/repo', 'reset', '-q', '--hard', 'HEAD'])
    print(n, results[n].get('detected'),
          {c: (v['exit'], v['first_key']) for c, v in results[n].get('checks', {}).items()})
    json.dump(results, open(resf, 'w'), indent=1, sort_keys=True)
