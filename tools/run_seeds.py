#!/usr/bin/env python3
"""Run every kept seeded change against the quick check(s) of its property; write seeded/RESULTS.json.
The change is applied in a scratch clone of /repo (TXDBUS_REPO points the checks at it), never in /repo.
usage: run_seeds.py [--jobs N] [name-prefix ...]      (--jobs: N workers, each with a clone of its own)"""
import json
import os
import shutil
import subprocess
import sys
import tempfile
import time

ROOT = '/verif'
args = sys.argv[1:]
jobs, shard = 1, None
if args[:1] == ['--jobs']:
    jobs, args = int(args[1]), args[2:]
if args[:1] == ['--shard']:
    shard, args = tuple(int(x) for x in args[1].split('/')), args[2:]
names = sorted(d for d in os.listdir(ROOT + '/seeded') if os.path.isdir(ROOT + '/seeded/' + d))
if args:
    names = [n for n in names if any(n.startswith(p) for p in args)]
resf = ROOT + '/seeded/RESULTS.json'
if jobs > 1:
    # N workers over interleaved shares of the list, results merged at the end
    tmpd = tempfile.mkdtemp(prefix='txv-seedres-')
    procs = [subprocess.Popen([sys.executable, __file__, '--shard', '%d/%d' % (i, jobs)] + args,
                              env=dict(os.environ, TXV_SEED_RESULTS=os.path.join(tmpd, 'r%d.json' % i))) for i in range(jobs)]
    for p in procs:
        p.wait()
    results = json.load(open(resf)) if os.path.exists(resf) else {}
    for i in range(jobs):
        f = os.path.join(tmpd, 'r%d.json' % i)
        if os.path.exists(f):
            results.update(json.load(open(f)))
    json.dump(results, open(resf, 'w'), indent=1, sort_keys=True)
    shutil.rmtree(tmpd, ignore_errors=True)
    sys.exit(0)
if shard:
    names = names[shard[0]::shard[1]]
    resf = os.environ['TXV_SEED_RESULTS']
results = json.load(open(resf)) if os.path.exists(resf) else {}
scratch = tempfile.mkdtemp(prefix='txv-seedrepo-')
clone = os.path.join(scratch, 'repo')
subprocess.run(['git', 'clone', '-q', '/repo', clone], check=True)
head = subprocess.run(['git', '-C', '/repo', 'rev-parse', '--short', 'HEAD'], stdout=subprocess.PIPE).stdout.decode().strip()
env = dict(os.environ, TXDBUS_REPO=clone, TXV_EVIDENCE_DIR=os.path.join(scratch, 'evidence'),
           TXV_REPLAY_DIR=os.path.join(scratch, 'replays'))
try:
    for n in names:
        meta = json.load(open('%s/seeded/%s/meta.json' % (ROOT, n)))
        pid = meta['property']
        if meta.get('superseded_by'):
            results[n] = dict(applied=False, superseded=True, property=pid, repo_head=head)
            print(n, 'superseded', flush=True)
            json.dump(results, open(resf, 'w'), indent=1, sort_keys=True)
            continue
        checks = meta.get('checks', [pid])
        patch = '%s/seeded/%s/patch.diff' % (ROOT, n)
        subprocess.run(['git', '-C', clone, 'reset', '-q', '--hard', 'HEAD'])
        ok = subprocess.run(['git', '-C', clone, 'apply', patch], stderr=subprocess.DEVNULL).returncode == 0 or \
            subprocess.run(['git', '-C', clone, 'apply', '-3', patch], stderr=subprocess.DEVNULL).returncode == 0
        if not ok:
            results[n] = dict(applied=False, repo_head=head)
            continue
        r = {}
        for c in checks:
            t = time.time()
            p = subprocess.run(['./check', c], cwd=ROOT, stdout=subprocess.PIPE, stderr=subprocess.DEVNULL, env=env)
            out = p.stdout.decode('utf-8', 'replace')
            first = [l for l in out.split('\n') if l.startswith('VIOLATION')]
            key = [l.strip()[:300] for l in out.split('\n') if l.startswith('  ')][:1]
            r[c] = dict(exit=p.returncode, detected=p.returncode == 1 and bool(first), first_key=key,
                        wall_s=round(time.time() - t, 1))
        results[n] = dict(applied=True, property=pid, checks=r, repo_head=head,
                          detected=any(v['detected'] for v in r.values()))
        print(n, results[n].get('detected'), {c: (v['exit'], v['first_key']) for c, v in r.items()}, flush=True)
        json.dump(results, open(resf, 'w'), indent=1, sort_keys=True)
finally:
    shutil.rmtree(scratch, ignore_errors=True)
