#!/usr/bin/env python3
"""keep_seed.py <src dir> <property id> <name> "<verification line>"  -> /verif/seeded/<name>/"""
import json
import os
import shutil
import sys

src, pid, name, line = sys.argv[1:5]
dst = os.path.join('/verif/seeded', name)
os.makedirs(dst, exist_ok=True)
for f in ('patch.diff', 'demo.py'):
    shutil.copy(os.path.join(src, f), os.path.join(dst, f))
meta = json.load(open(os.path.join(src, 'meta.json')))
meta['property'] = pid
meta['origin'] = 'independent sub-agent given only the property text and a scratch worktree'
meta['confirmed'] = ('tools/verify_seed.sh in a scratch worktree of /repo HEAD (removed afterwards): ' + line)
json.dump(meta, open(os.path.join(dst, 'meta.json'), 'w'), indent=1)
print('kept', dst)
