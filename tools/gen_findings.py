#!/usr/bin/env python3
"""Rebuild the 'fixed' entries of findings/known_findings.json from the fix: commits of /repo
(open findings, if any, are kept as they are)."""
import json, subprocess, os
ROOT = '/verif'
M = [
 ('bytes following the line', 'C04', 'final handshake line and message bytes containing CRLF in one read: rest of the read split on CRLF and fed to the cleared authenticator (AttributeError, messages mangled)'),
 ('process buffered messages', 'C04', 'about 990 or more complete messages in one read: RecursionError in dataReceived, rest of the read lost'),
 ('parseMessage recovers', 'C03', 'parseMessage never read the flags byte: parsed messages always had expectReply = autoStart = True (C10: calls flagged no-reply were answered; C14: flags lost on the bus)'),
 ('reject arrays whose element', 'C05', "unmarshal('a()', data with non-zero array length) loops forever"),
 ('name validators reject', 'C18', "'a.b.' accepted as interface/error/bus name; 'a:b.c' and ':.a' accepted as bus names"),
 ('message constructors validate empty', 'C18', "interface='' / destination='' skipped validation and were emitted as empty header fields"),
 ('rejects the empty tuple', 'C19', "sigFromPy(()) returned '()' which is not a complete type"),
 ('infers a 64-bit type', 'C19', "sigFromPy(2**40) returned 'i'; the value could not be encoded under the inferred signature"),
 ("takes a dict's value type", 'C19', "sigFromPy({'a': 2, 'b': True}) returned a{sb}; value decoded as {'a': True, 'b': True}"),
 ('does not merge explicitly typed', 'C19', "sigFromPy([7, UInt32(4294967295)]) returned 'ai'; the value could not be encoded under the inferred signature"),
 ('bus can answer EXTERNAL', 'C06', "AUTH EXTERNAL from a peer with credentials: hexlify('') TypeError, connection dropped instead of DATA"),
 ('DBUS_COOKIE_SHA1 accepts the right', 'C06', 'the right cookie response was REJECTED (str/bytes mix) and the following cancel() deleted the cookie a second time (FileNotFoundError)'),
 ('malformed authentication lines', 'C06', 'non-hex DATA/initial response and non-UTF-8 command bytes escaped as uncaught exceptions (also the client side, C07)'),
 ('accepts AGREE_UNIX_FD only', 'C07', 'AGREE_UNIX_FD before any OK made a UNIX-transport client send BEGIN and Hello'),
 ('ERROR answer to NEGOTIATE_UNIX_FD', 'C07', 'ERROR in answer to NEGOTIATE_UNIX_FD made the client try the next mechanism instead of sending BEGIN'),
 ('defines the cookie_dir', 'C07', 'DBUS_COOKIE_SHA1 could never succeed on the client: cookiedir/cookie_dir attribute mismatch (AttributeError)'),
 ('unexpected DATA challenge', 'C07', 'DATA while ANONYMOUS is selected produced no output: both sides wait for ever'),
 ('connect() fails when the transport closes', 'C09', 'transport closing before the Hello reply (refused authentication, early close): the connect Deferred never fired'),
 ('every live remote-object proxy', 'C09', 'proxies created with explicit interfaces, and all but the last of several proxies for one (bus name, path), were not notified of connection loss; a list of interfaces made the registry key unhashable'),
 ('not a valid DBus string still produces', 'C10', 'exception text containing NUL: the error reply could not be built and the caller got no reply'),
 ('GetManagedObjects reports only objects beneath', 'C16', "GetManagedObjects('/a/b') included '/a/bc' (textual prefix)"),
 ('GetAll returns the properties of an interface from the whole', 'C17', 'GetAll on an instance of a subclass returned only the properties of the most derived class defining any for that interface'),
 ("declared 'd' is sent as a DOUBLE", 'C17', "a property declared 'd' holding a Python int was returned as a variant of INT32"),
 ('match rules evaluate message type', 'C12', "type constraint never evaluated; path_namespace textual prefix ('/a/bc' matched '/a/b'); argument constraints ignored without a body; argument paths one-directional"),
 ('passes the descriptor list parseMessage requires', 'C14', 'first message to the built-in bus raised TypeError (parseMessage arity) - bus unusable (C11, C13, C14)'),
 ('call sent before Hello is not forwarded', 'C14', 'a non-Hello first call caused loseConnection but was still forwarded'),
 ('delivers an addressed message to its destination only', 'C14', 'unicast messages were also routed through the match rules: third parties with a matching rule received them, the destination twice'),
 ('ties match rules to the connection', 'C14', 'match rules were never associated with their connection (survived disconnects) and RemoveMatch was not implemented'),
 ("GetManagedObjects on '/' does not list", 'C16', "GetManagedObjects('/') listed the root object itself (introduced by the first prefix repair, corrected at once)"),
 ('accepts the empty match rule', 'C12', "AddMatch('') - the rule without constraints - raised ValueError in the bus rule parser"),
 ("does not list a child with an empty name", 'C16', "Introspect('/') with an object exported at '/' listed a child with an empty name"),
 ('rejects a value list whose length differs', 'C10', "a method declared to return 'us' returning (3,): reply sent with a SIGNATURE header not matching its body instead of an error reply"),
 ('answers GetId with its id as a string', 'C14', 'GetId - a call addressed to the bus itself - was always answered with a MarshallingError error reply (bytes returned for a declared string)'),
 ('bind every DBusProperty of the class hierarchy', 'C17', "a base class declaring property 'level' on one interface and a subclass declaring 'level' on another: assigning the base attribute raised AttributeError ('NoneType' object has no attribute 'emits')"),
 ('re-marshalled message keeps REPLY_SERIAL typed as UINT32', 'C14', "a method return or error forwarded by the bus carried REPLY_SERIAL (header field 5) as a variant of type 'i' ('x' beyond 2**31) instead of 'u': not the message that was sent, and rejected by conforming peers"),
 ('removing a cookie tolerates a keyring file that is already gone', 'C06', "two connections challenged with DBUS_COOKIE_SHA1, both cookies expire, one cleans up (the keyring file is unlinked), the other sends CANCEL or its DATA answer: FileNotFoundError out of dataReceived, connection dropped instead of REJECTED"),
 ('an authenticator removes only the cookie it created', 'C06', "Challenge(1), 30 s pass, Challenge(2) reuses cookie id 1, CANCEL (or any answer) on connection 1 removes connection 2's fresh cookie: the conforming client of connection 2 is REJECTED"),
 ('property values are stored per (interface, name)', 'C17', "properties 'name' on org.v.I1 and 'ame' on org.v.I1n of one object (interface + name concatenate to the same string) share one stored value: assigning one changes what Get returns for the other"),
 ('message off the wire keeps its body bytes', 'C14', "a call with body 'siv' holding Variant('u', 4000000000), or a return with a{sv} holding a BYTE and an OBJECT_PATH, forwarded by the bus: the variants arrive retyped (INT64 / INT32 / STRING) - not the message that was sent"),
 ('losing the connection fails every outstanding call even when an errback issues new ones', 'C09', "three calls outstanding, the errback of the first re-issues a call on the same connection, the connection is lost: RuntimeError (dictionary changed size during iteration) out of connectionLost, the other two calls never fail, proxy disconnect callbacks never run"),
 ('values of a bus address are unescaped', 'C09', "address 'unix:path=/t%20b%2dx' (escaped as the specification prescribes): the client dials a socket literally named '/t%20b%2dx' instead of '/t b-x'; the same for abstract="),
 ('a unix address naming no socket is skipped', 'C09', "address list 'unix:runtime=y;unix:path=/t/b': UnboundLocalError out of getDBusEndpoints, the second, reachable address is never tried"),
 ('every disconnect callback runs even when one of them cancels itself', 'C09', "three disconnect callbacks registered, the first cancels its own registration while it runs, the connection is lost: the second callback never runs (connection-level and proxy-level lists alike)"),
 ('every caller waiting on a shared Deferred gets its result', 'C10', "an exported method returns ONE Deferred to two concurrent calls and the Deferred fires with a value: the second caller gets org.txdbus.PythonException.MarshallingError instead of the value"),
 ('known header fields hold values of the wrong kind is rejected', 'C05', "a peer of the built-in bus sends a well-framed call for another client whose MEMBER header field is an array of strings (or INTERFACE a boolean ...): the bus forwards it, the addressed client's dataReceived raises TypeError (unhashable type: 'list') and that client - not the sender - loses its connection"),
 ('SIGNATURE header field longer than 255 characters', 'C05', "a message whose SIGNATURE header field arrives as a STRING of 804 (3204) characters - 'a(' + '()' * 400 + 'y)' - in front of a 400-element array: every element costs one step per empty struct, 700000 interpreter calls for 4 KB and 23 million (19 s) for 16 KB: decoding work quadratic in the length of the message"),
 ('tcp address without a host means the local one', 'C09', "address list 'tcp:port=42;unix:path=/t/b' (no host) or 'tcp:host=h.x;...' (no port) or a non-numeric port: KeyError / ValueError out of getDBusEndpoints - connect() raises instead of returning a Deferred and the reachable address behind it is never tried"),
 ("the bus's own name, is refused", 'C13', "RequestName('org.freedesktop.DBus') by a client is answered 1 (primary owner) with NameAcquired; GetNameOwner / ListQueuedOwners then name the client while calls to that name are still answered by the bus: the name has two owners and the reply code misstates the caller's relation to it"),
 ('asking for dbusCaller gets it also when it is wrapped', 'C10', "an exported method written with @defer.inlineCallbacks (or declaring dbusCaller keyword-only) and asking for dbusCaller=None runs with dbusCaller=None: the caller's unique name is not passed although the implementation asks for it"),
 ('authentication line is not too long when a read ends between its CR and LF', 'C06', "an authentication line of exactly 16384 bytes (not longer than 16 KiB) whose read ends between its CR and its LF: the connection is closed, while the same line delivered whole or cut anywhere else is answered as the state machine prescribes"),
 ('apostrophes in match rule values are escaped', 'C12', "addMatch(arg=[(0, \"it's\")]) sends arg0='it's' (not a rule); arg=[(0, \"x',member='Other\")] sends arg0='x',member='Other' - a valid rule with another meaning: the text sent to the daemon does not express the constraints of the local rule"),
 ('the bus reads match rule values with commas', 'C12', "AddMatch(\"type='signal',arg0='a,b'\") or arg0='a=b' on the built-in bus: ValueError out of the rule parser, the rule cannot be registered"),
 ('cannot be announced is not left exported', 'C16', "exportObject of an object with a readable property that was never assigned raises while building InterfacesAdded - after the object was already entered in the export table: no announcement, yet calls to the path are dispatched, the parent's introspection lists it, and GetManagedObjects on an exported ancestor raises out of dataReceived"),
 ('value of another type than the property declares is refused', 'C17', "Properties.Set(level declared 'i', variant STRING 'hello') succeeds, stores the string and emits PropertiesChanged; afterwards Get(level) is answered with a ValueError error reply and GetAll of the whole interface fails - for every client"),
 ('big-endian byte order carries its body in that order too', 'C03', "a message class with the documented attribute endian = ord('B') and a body of signature 'us': header and header fields are written big-endian, the body little-endian - the constructed bytes are not a well-formed message ([1, 'hello'] parses back as [16777216, ...])"),
 ("calls issued by a remote object's disconnect callback", 'C09', "a live proxy's notifyOnDisconnect callback issues a call (a retry with timeout=5) while the loss is handled: the proxy callbacks run after the table of outstanding calls was flushed, so that call is never failed with the loss reason - its timer fires TimeOut 5 s after the loss, without a timeout it hangs for ever"),
 ('keeps the header flag bits this implementation does not interpret', 'C14', "a message with header flags 0x4 .. 0x7 (0x4 = ALLOW_INTERACTIVE_AUTHORIZATION) sent through the built-in bus arrives with flags 0x0 .. 0x3: not unchanged except the sender"),
 ('RequestName queues a requester', 'C13', 'request without the replace flag refused instead of queued; a waiting client requesting again queued twice'),
 ('waiting for a name leaves the queue', 'C13', 'ReleaseName by a queued client answered NOT_OWNER and left it queued; a queued client that disconnected later became a dead owner'),
]
log = subprocess.run(['git', '-C', '/repo', 'log', '--format=%h %s', '4c62642..HEAD'], stdout=subprocess.PIPE).stdout.decode().strip().split('\n')
path = os.path.join(ROOT, 'findings', 'known_findings.json')
old = json.load(open(path)) if os.path.exists(path) else {'findings': []}
# open findings: genuine defects recorded rather than repaired.  `key` is the exact violation key of the check, so that
# any other violation of the same property is still reported.
OPEN = [
    dict(property='C10', status='open',
         key='a failed Deferred shared by several calls: only the first caller gets the failure, the others a MarshallingError',
         what="an exported method returns ONE Deferred to two concurrent calls and the Deferred fails: the first caller gets the "
              "error reply for the failure, the second an error reply org.txdbus.PythonException.MarshallingError "
              "(handleMethodCallMessage hangs its callbacks on the shared Deferred and the first error reply consumes the failure); "
              "the success path of the same history was repaired (fix: 'every caller waiting on a shared Deferred gets its result'), "
              "a repair of the failure path would change who consumes failures of application Deferreds"),
]
out = list(OPEN)
unmatched = []
for l in reversed(log):
    h, s = l.split(' ', 1)
    hit = [(pid, what) for k, pid, what in M if k in s]
    if not hit:
        unmatched.append(l)
        continue
    pid, what = hit[0]
    out.append(dict(property=pid, status='fixed', commit=h, subject=s, what=what,
                    line='fixed: property=%s %s %s' % (pid, h, what)))
json.dump({'findings': out}, open(path, 'w'), indent=1)
print(len(out), 'entries;', 'unmatched:', unmatched)
