#!/bin/sh
# usage: verify_seed.sh <seed dir with patch.diff demo.py meta.json> <name> 
# (run one at a time: the repository suite binds fixed ports and several suites side by side disturb each other)
# Confirms in a scratch worktree of /repo HEAD: patch applies, suite still 164 passed, demo fails with / passes without.
src=$1; name=$2
wt=/tmp/vs-$name
git -C /repo worktree add -q --detach $wt HEAD || exit 2
cd $wt
# a HOME of its own: suites running side by side share ~/.dbus-keyrings otherwise
mkdir -p /tmp/vs-home-$name; export HOME=/tmp/vs-home-$name
res="ok"
/venv/bin/python $src/demo.py >/dev/null 2>&1 && d0=pass || d0=fail
git apply $src/patch.diff 2>/dev/null || git apply -3 $src/patch.diff 2>/dev/null || res="noapply"
if [ $res = ok ]; then
  suite=$(/venv/bin/python -m pytest -q -p no:cacheprovider --timeout=900 2>&1 | tail -1)
  /venv/bin/python $src/demo.py >/dev/null 2>&1 && d1=pass || d1=fail
else suite="-"; d1="-"; fi
cd /; git -C /repo worktree remove --force $wt; rm -rf /tmp/vs-home-$name
echo "$name: apply=$res demo_without=$d0 demo_with=$d1 suite='$suite'"
case "$suite" in *"164 passed"*) ;; *) res=bad;; esac
[ "$res" = ok ] && [ "$d0" = pass ] && [ "$d1" = fail ]
