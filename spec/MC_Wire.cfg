SPECIFICATION Spec
CONSTANTS
  Offs = {0, 1, 2, 3, 4, 5, 6, 7}
INVARIANT RoundTrip
INVARIANT LinearSteps
INVARIANT Aligned
CHECK_DEADLOCK FALSE
