------------------------------ MODULE AuthPair ------------------------------
(***************************************************************************)
(* The client automaton of AuthClient.tla against a reference server that  *)
(* follows the DBus specification and accepts the mechanisms in Accept:    *)
(* the handshake completes whenever the client has a usable mechanism the  *)
(* server accepts, and is abandoned (connection closed) otherwise (C07).   *)
(***************************************************************************)
EXTENDS AuthClient

VARIABLE conf            \* the server's configuration, fixed along a behaviour:
                         \* [accept: subset of the mechanisms, fd: "AGREE" | "ERROR", ext: BOOLEAN]
Accept == conf.accept
FdAnswer == conf.fd              \* the server's answer to NEGOTIATE_UNIX_FD
ExtChallenge == conf.ext         \* the server sends an (empty) DATA challenge for EXTERNAL before OK

Last == out[Len(out)]

(* the line the reference server sends in answer to what the client wrote last *)
ServerSays ==
    CASE Last = "AUTH EXTERNAL" -> IF "EXTERNAL" \in Accept THEN (IF ExtChallenge THEN "DATA" ELSE "OK") ELSE "REJECTED"
      [] Last = "AUTH DBUS_COOKIE_SHA1" -> IF "DBUS_COOKIE_SHA1" \in Accept THEN "DATA" ELSE "REJECTED"
      [] Last = "AUTH ANONYMOUS" -> IF "ANONYMOUS" \in Accept THEN "OK" ELSE "REJECTED"
      [] Last = "DATA" -> "OK"
      [] Last = "DATA response" -> "OK"
      [] Last = "ERROR" -> "REJECTED"
      [] Last = "NEGOTIATE_UNIX_FD" -> FdAnswer
      [] OTHER -> "none"

PairInit == Init /\ conf \in [accept : SUBSET {"EXTERNAL", "DBUS_COOKIE_SHA1", "ANONYMOUS"},
                                fd : {"AGREE", "ERROR"}, ext : BOOLEAN]

(* one named action per server line so that TLC labels the transitions *)
PRejected == ServerSays = "REJECTED" /\ Rejected /\ UNCHANGED conf
POk == ServerSays = "OK" /\ Ok("valid") /\ UNCHANGED conf
PData == ServerSays = "DATA" /\ Data("challenge") /\ UNCHANGED conf
PAgree == ServerSays = "AGREE" /\ Agree /\ UNCHANGED conf
PError == ServerSays = "ERROR" /\ ErrorLine /\ UNCHANGED conf

PairNext == PRejected \/ POk \/ PData \/ PAgree \/ PError
pvars == <<vars, conf>>
PairSpec == PairInit /\ [][PairNext]_pvars /\ WF_pvars(PairNext)

Usable == "EXTERNAL" \in Accept \/ "ANONYMOUS" \in Accept \/ ("DBUS_COOKIE_SHA1" \in Accept /\ CookieOK)

Completes == [](Usable => <>(phase = "begun"))
GivesUp == [](~Usable => <>(phase = "closed"))
NeverBoth == [](phase = "begun" => Usable)
=============================================================================
