SPECIFICATION SpecNames
CONSTANTS
  Client = {1, 2, 3}
  Name = {1}
  Rules = {}
  Sigs = {}
  Match <- cMatch0
  MaxId = 3
  MaxRules = 0
INVARIANT LiveOwner
INVARIANT NoDead
INVARIANT NoDup
INVARIANT Fresh
INVARIANT UniqueIds
INVARIANT NoGhostDelivery
PROPERTY ReplySound
PROPERTY ReplaceOnlyIfAgreed
PROPERTY ReleasedIsGone
PROPERTY Succession
PROPERTY NeverReused
CHECK_DEADLOCK FALSE
