---- MODULE RouterData ----
(* placeholder: the harness generates this module per run (message universe and rule pool) *)
MsgList == <<>>
RulePool == {}
====
