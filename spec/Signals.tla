------------------------------ MODULE Signals ------------------------------
(***************************************************************************)
(* Signals end to end: DBusObject.emitSignal on an exporting client, the   *)
(* built-in bus (AddMatch / RemoveMatch / broadcast), the subscribing      *)
(* client's router and RemoteDBusObject.notifyOnSignal /                   *)
(* cancelSignalNotification.  One action = one API call followed by        *)
(* delivery of everything in flight (the delivery interleavings themselves *)
(* are the business of EndToEnd.tla and Bus.tla).                          *)
(*                                                                         *)
(* Modelled as the code behaves, with the two places where it departs from *)
(* a reference daemon / binding named as constants:                        *)
(*   PerRuleCopies  - the built-in bus sends one copy of a broadcast per   *)
(*                    matching rule a connection holds (dbus-daemon: one   *)
(*                    per connection); every copy is matched against all   *)
(*                    local rules, so a client holding n subscriptions to  *)
(*                    a signal runs each callback n times per emission;    *)
(*   NoSenderFilter - the rule of a proxy subscription does not name the   *)
(*                    bus name the proxy stands for: the same signal       *)
(*                    emitted by another client at the same path is        *)
(*                    delivered as well.                                   *)
(***************************************************************************)
EXTENDS Naturals, Sequences, FiniteSets

CONSTANTS Subs,            \* subscribing clients
          Emitters,        \* exporting clients; every proxy stands for Target
          Target,          \* the emitter the subscribers' proxies name
          Sigs,            \* signals of the interface
          MaxSub,          \* bound on subscriptions made (bounds the model only)
          MaxEmit,         \* bound on emissions (bounds the model only)
          PerRuleCopies, NoSenderFilter

VARIABLES subs,            \* [Subs -> Seq([id, sig])] live subscriptions of each client, oldest first
          nsub,            \* subscriptions made so far (ids are 1, 2, ...)
          nemit,           \* emissions so far (each carries its number as argument)
          got              \* [Subs -> Seq([id, sig, from, k])] callbacks run by the last action, in order

vars == <<subs, nsub, nemit, got>>

Nothing == [c \in Subs |-> <<>>]
Matching(c, s) == SelectSeq(subs[c], LAMBDA r : r.sig = s)

Init == subs = [c \in Subs |-> <<>>] /\ nsub = 0 /\ nemit = 0 /\ got = Nothing

(* proxy.notifyOnSignal(s, callback) *)
Subscribe(c, s) ==
    /\ nsub < MaxSub
    /\ subs' = [subs EXCEPT ![c] = Append(@, [id |-> nsub + 1, sig |-> s])]
    /\ nsub' = nsub + 1 /\ got' = Nothing /\ UNCHANGED nemit

(* proxy.cancelSignalNotification(rule id) *)
Cancel(c, i) ==
    /\ \E k \in 1..Len(subs[c]) : subs[c][k].id = i
    /\ subs' = [subs EXCEPT ![c] = SelectSeq(@, LAMBDA r : r.id # i)]
    /\ got' = Nothing /\ UNCHANGED <<nsub, nemit>>

RECURSIVE Times(_, _)
Times(s, n) == IF n = 0 THEN <<>> ELSE s \o Times(s, n - 1)

(* object.emitSignal(s, k) on emitter e, with the declared signature *)
Emit(e, s) ==
    /\ nemit < MaxEmit
    /\ nemit' = nemit + 1
    /\ got' = [c \in Subs |->
                 IF e # Target /\ ~NoSenderFilter THEN <<>>
                 ELSE LET m == Matching(c, s)
                          once == [i \in 1..Len(m) |-> [id |-> m[i].id, sig |-> s, from |-> e, k |-> nemit + 1]]
                      IN Times(once, IF PerRuleCopies THEN Len(m) ELSE IF Len(m) > 0 THEN 1 ELSE 0)]
    /\ UNCHANGED <<subs, nsub>>

(* a signal of that name whose body does not have the declared signature: no callback sees it *)
EmitMisfit(e, s) ==
    /\ nemit < MaxEmit
    /\ nemit' = nemit + 1 /\ got' = Nothing /\ UNCHANGED <<subs, nsub>>

Next ==
    \/ \E c \in Subs, s \in Sigs : Subscribe(c, s)
    \/ \E c \in Subs, i \in 1..MaxSub : Cancel(c, i)
    \/ \E e \in Emitters, s \in Sigs : Emit(e, s) \/ EmitMisfit(e, s)

Spec == Init /\ [][Next]_vars

-----------------------------------------------------------------------------
(* only live subscriptions to the emitted signal are called, with the emission's own number *)
OnlySubscribed == \A c \in Subs : \A j \in 1..Len(got[c]) :
                      /\ \E k \in 1..Len(subs[c]) : subs[c][k].id = got[c][j].id /\ subs[c][k].sig = got[c][j].sig
                      /\ got[c][j].k = nemit
(* a cancelled subscription is never called again *)
CancelledSilent == [][\A c \in Subs, i \in 1..MaxSub : Cancel(c, i) =>
                          \A j \in 1..Len(got'[c]) : got'[c][j].id # i]_vars
(* where a client holds one subscription to a signal, its callback runs exactly once per emission by the target *)
OnceWhenSingle == [][\A s \in Sigs : Emit(Target, s) =>
                        \A c \in Subs : Len(Matching(c, s)) = 1 => Len(got'[c]) = 1]_vars
(* what a reference daemon and binding would give: once per subscription, from the target only.  It does NOT hold
   with the deviations switched on - kept to show what they cost (checked with both constants FALSE) *)
OncePerSubscription == [][\A e \in Emitters, s \in Sigs : Emit(e, s) =>
                             \A c \in Subs : Len(got'[c]) = IF e = Target THEN Len(Matching(c, s)) ELSE 0]_vars
=============================================================================
