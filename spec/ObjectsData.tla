---- MODULE ObjectsData ----
Catalog == <<>>
CallSpace == {}
====
