---------------------------- MODULE MC_Message ----------------------------
(* Generator machine over messages (C03): every initial state is one abstract message with the
   bytes a conforming peer would send for it; the same module validates bytes produced and
   messages parsed by the implementation (TraceOwn / TraceParse). *)
EXTENDS Message

CONSTANTS MTypes       \* message types explored by this run (subset of 1..4; split over processes)

VARIABLES c,           \* [m, le, sigpos]
          raw,         \* bytes of the message
          rec,         \* what parsing recovered (Project form)
          ser          \* [start, after] : serial counter before / after construction

vars == <<c, raw, rec, ser>>

S(str) == str          \* byte tuples are written out below

P1 == <<47>>                              \* "/"
P2 == <<47, 97, 47, 98, 48>>              \* "/a/b0"
IFACE == <<111, 114, 103, 46, 73, 102>>   \* "org.If"
MEMB == <<77, 95, 49>>                    \* "M_1"
DEST == {<<58, 49, 46, 53>>, <<97, 46, 98>>}   \* ":1.5", "a.b"
SNDR == <<58, 49, 46, 57>>                \* ":1.9"
ERRN == <<97, 46, 69, 114>>               \* "a.Err"
RSER == {<<1, 0, 0, 0>>, <<255, 255, 255, 255>>}

F(code, T, v) == <<code, <<T>>, v>>

RECURSIVE SubSeqs(_)
(* all subsequences (order preserved) of a sequence *)
SubSeqs(s) == IF s = <<>> THEN {<<>>}
              ELSE LET r == SubSeqs(Tail(s)) IN r \cup {<<Head(s)>> \o x : x \in r}

Opt == UNION {{<<F(6, "s", d), F(7, "s", SNDR)>>, <<F(6, "s", d)>>} : d \in DEST} \cup {<<F(7, "s", SNDR)>>, <<>>}

Req(t) == CASE t = 1 -> UNION {{<<F(1, "o", p), F(3, "s", MEMB)>>, <<F(1, "o", p), F(2, "s", IFACE), F(3, "s", MEMB)>>} : p \in {P1, P2}}
            [] t = 2 -> {<<F(5, "u", r)>> : r \in RSER}
            [] t = 3 -> {<<F(4, "s", ERRN), F(5, "u", r)>> : r \in RSER}
            [] t = 4 -> {<<F(1, "o", P2), F(2, "s", IFACE), F(3, "s", MEMB)>>}

Unknown == <<20, <<"u">>, <<9, 9, 9, 9>>>>

(* orders in which another implementation may write the fields, with or without a field of
   unknown code somewhere *)
Orders(fs) ==
    LET n == Len(fs)
        rev == [i \in 1..n |-> fs[n + 1 - i]]
        rot == IF n = 0 THEN fs ELSE Tail(fs) \o <<Head(fs)>>
        base == {fs, rev, rot}
    IN base \cup {<<Unknown>> \o x : x \in base}
            \cup {IF Len(x) = 0 THEN x ELSE <<Head(x)>> \o <<Unknown>> \o Tail(x) : x \in base}

AXT == <<"a", <<"x">>>>
Bodies == { [T |-> <<>>, v |-> <<>>],
            [T |-> << <<"s">> >>, v |-> << <<195, 169, 120>> >>],
            [T |-> << AXT, <<"y">> >>, v |-> << <<>>, <<7>> >>],
            [T |-> << <<"v">>, <<"a", <<"{", <<"s">>, <<"v">>>>>> >>,
             v |-> << << <<"u">>, <<1, 2, 3, 4>> >>, << << <<107>>, << <<"y">>, <<5>> >> >> >> >>] }

Serials == {1, 16909060}        \* 0x01020304

Mk(t, nr, na, s, fo, b) == [type |-> t, nr |-> nr, na |-> na, serial |-> s, fields |-> fo, bodyT |-> b.T, body |-> b.v]
B2 == CHOOSE b \in Bodies : Len(b.T) = 1
FullOpt == CHOOSE o \in Opt : Len(o) = 2

(* A: every field subset in every order (with / without an unknown field), both byte orders *)
CasesA(t) == {[m |-> Mk(t, FALSE, FALSE, 1, fo, B2), le |-> le, sigpos |-> 0] :
                 le \in BOOLEAN, fo \in UNION {Orders(r \o o) : r \in Req(t), o \in Opt}}
(* B: all flags x bodies x byte orders x signature position x serials on the fullest field list *)
CasesB(t) == {[m |-> Mk(t, nr, na, s, r \o FullOpt, b), le |-> le, sigpos |-> sp] :
                 nr \in BOOLEAN, na \in BOOLEAN, s \in Serials, b \in Bodies, le \in BOOLEAN,
                 sp \in {0, 2}, r \in Req(t)}

Cases == UNION {CasesA(t) \cup CasesB(t) : t \in MTypes}

Known(fs) == {f \in fs : f[1] \in 1..9}
ProjectK(m) == [Project(m) EXCEPT !.fields = Known(@)]
RecoveredK(r) == [Recovered(r) EXCEPT !.fields = Known(@)]

Init == /\ c \in Cases
        /\ raw = EncMsg(c.m, c.le, c.sigpos)
        /\ rec = RecoveredK(raw)
        /\ ser = [start |-> c.m.serial, after |-> c.m.serial + 1]
Next == UNCHANGED vars
Spec == Init /\ [][Next]_vars

(* the reference encoder produces well-formed messages that the reference parser takes apart
   again (oracle self-check) *)
RefWellFormed == WellFormed(raw)
RefParseBack == rec = ProjectK(c.m)

(* bytes produced by the implementation for abstract message c.m, constructed when the serial
   counter stood at ser.start *)
TraceOwn == /\ WellFormed(raw)
            /\ RecoveredK(raw) = ProjectK(c.m)
            /\ c.m.serial = ser.start /\ ser.start # 0
            /\ ser.after = ser.start + 1

(* a message the bus forwarded (raw) for an originator whose true unique name is c.sender and who sent
   c.orig: well-formed, and unchanged except that SENDER is the true name whatever the originator wrote *)
TraceForward == /\ WellFormed(raw)
                /\ raw[3] = c.orig[3]            \* the whole flags byte, the bits of later protocol versions included
                /\ LET a == Recovered(c.orig)
                       b == Recovered(raw)
                   IN b = [a EXCEPT !.fields = {f \in a.fields : f[1] # 7} \cup {<<7, <<"s">>, c.sender>>}]
(* the same for a message parsed from foreign bytes and serialised again: header fields of unknown code are not
   carried over (they must be ignored by whoever receives them), everything known is *)
TraceResent == /\ WellFormed(raw)
               /\ LET a == RecoveredK(c.orig)
                      b == RecoveredK(raw)
                  IN b = [a EXCEPT !.fields = {f \in a.fields : f[1] # 7} \cup {<<7, <<"s">>, c.sender>>}]
(* a message the bus produced itself *)
TraceWellFormed == WellFormed(raw)

(* size limit: construction succeeds exactly when the serialised length is within the limit *)
TraceLimit == ser.accepted <=> (ser.rawlen <= ser.limit)

(* bytes of another implementation (raw) handed to the implementation's parser, which
   recovered rec *)
TraceParse == /\ raw = EncMsg(c.m, c.le, c.sigpos)
              /\ rec = ProjectK(c.m)
(* any bytes the reference parser accepts - e.g. with flag bits set that this version of the protocol does not
   define - handed to the implementation's parser: it recovers what the reference parser recovers *)
TraceParseAny == rec = RecoveredK(raw)
(* bytes that are NOT a well-formed message (a known header field of the wrong type, a required field missing ...):
   the implementation's parser refuses them (recorded as type 0) - it is whoever parses first, e.g. the bus, that
   pays for them, not the addressee *)
TraceParseInvalid == ~WellFormed(raw) /\ rec.type = 0
=============================================================================
