---- MODULE FramingData ----
(* placeholder instance (one 16-byte message); the harness generates this module per stream *)
Lead == 0
LineEnd == <<>>
MsgLen == <<16>>
MsgFds == <<0>>
HIdx == << <<>> >>
CumLen == <<16>>
CumFds == <<0>>
MaxRead == 16
====
