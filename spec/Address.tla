------------------------------ MODULE Address ------------------------------
(***************************************************************************)
(* Bus addresses (txdbus.endpoints.getDBusEndpoints, used by               *)
(* client.connect): the part of C09 that says "the first reachable address *)
(* of the bus address list, tried in listed order".  Written from the      *)
(* "Server Addresses" section of the DBus specification.  Generator        *)
(* machine: every initial state is one address list with the endpoints a   *)
(* client must try for it, in order.                                       *)
(*                                                                         *)
(* An address list is a sequence of entries; an entry is                   *)
(*   [transport, kv]    kv = sequence of <<key, value>> in written order   *)
(* a value is a sequence of tokens; a token is <<c>> for a character c or   *)
(* <<"%", c>> for the character c written as the escape %xx.               *)
(***************************************************************************)
EXTENDS Naturals, Sequences, FiniteSets

VARIABLES addr,        \* the address list
          want         \* the endpoints to try, in order

vars == <<addr, want>>

Unescape(v) == [i \in 1..Len(v) |-> IF Len(v[i]) = 2 THEN v[i][2] ELSE v[i][1]]

Get(kv, k) == LET S == {i \in 1..Len(kv) : kv[i][1] = k}
              IN IF S = {} THEN <<"-absent-">> ELSE Unescape(kv[CHOOSE i \in S : \A j \in S : j <= i][2])
Has(kv, k) == \E i \in 1..Len(kv) : kv[i][1] = k

IsNumber(v) == Len(v) > 0 /\ \A i \in 1..Len(v) : v[i] \in {"0", "1", "2", "3", "4", "5", "6", "7", "8", "9"}
LocalHost == <<"l", "o", "c", "a", "l", "h", "o", "s", "t">>

(* what a client dials for one entry; "skip": nothing this client can use (an unknown transport, or a unix entry
   naming neither path nor abstract nor tmpdir) - the remaining entries must still be tried *)
Endpoint(e) ==
    CASE e.transport = "unix" /\ Has(e.kv, "path") -> [kind |-> "unix", where |-> Get(e.kv, "path"), port |-> <<>>]
      [] e.transport = "unix" /\ ~Has(e.kv, "path") /\ Has(e.kv, "abstract") ->
             [kind |-> "unix", where |-> <<"NUL">> \o Get(e.kv, "abstract"), port |-> <<>>]
      [] e.transport \in {"tcp", "nonce-tcp"} /\ Has(e.kv, "port") /\ IsNumber(Get(e.kv, "port")) ->
             \* (an entry that names no host means the local one, as in the reference implementation; one without a
             \* usable port cannot be dialled)
             [kind |-> "tcp", where |-> IF Has(e.kv, "host") THEN Get(e.kv, "host") ELSE LocalHost, port |-> Get(e.kv, "port")]
      [] OTHER -> [kind |-> "skip", where |-> <<>>, port |-> <<>>]

Endpoints(a) == SelectSeq([i \in 1..Len(a) |-> Endpoint(a[i])], LAMBDA x : x.kind # "skip")

(* ---- the case space ---- *)
P(s) == [i \in 1..Len(s) |-> <<s[i]>>]       \* plain characters as tokens
PathPlain == P(<<"/", "t", "/", "b">>)
PathEsc == <<<<"/">>, <<"t">>, <<"%", " ">>, <<"b">>, <<"%", "-">>, <<"x">>, <<"%", ",">>, <<"y">>, <<"%", ";">>, <<"z">>>>
           \* "/t%20b%2dx%2cy%3bz" = "/t b-x,y;z": escaped separators are part of the value
Guid == P(<<"a", "1">>)
Host == P(<<"h", ".", "x">>)
Port == P(<<"4", "2">>)

Entries == {
    [transport |-> "unix", kv |-> <<<<"path", PathPlain>>>>],
    [transport |-> "unix", kv |-> <<<<"path", PathPlain>>, <<"guid", Guid>>>>],
    [transport |-> "unix", kv |-> <<<<"guid", Guid>>, <<"path", PathPlain>>>>],
    [transport |-> "unix", kv |-> <<<<"path", PathEsc>>>>],
    [transport |-> "unix", kv |-> <<<<"abstract", PathPlain>>>>],
    [transport |-> "unix", kv |-> <<<<"abstract", PathEsc>>, <<"guid", Guid>>>>],
    [transport |-> "unix", kv |-> <<<<"runtime", P(<<"y">>)>>>>],
    [transport |-> "unix", kv |-> <<<<"dir", PathPlain>>>>],
    [transport |-> "tcp", kv |-> <<<<"host", Host>>, <<"port", Port>>>>],
    [transport |-> "tcp", kv |-> <<<<"port", Port>>, <<"host", Host>>, <<"family", P(<<"i">>)>>>>],
    [transport |-> "nonce-tcp", kv |-> <<<<"host", Host>>, <<"port", Port>>, <<"noncefile", PathPlain>>>>],
    [transport |-> "tcp", kv |-> <<<<"port", Port>>>>],
    [transport |-> "tcp", kv |-> <<<<"host", Host>>>>],
    [transport |-> "tcp", kv |-> <<<<"host", Host>>, <<"port", P(<<"4", "x">>)>>>>],
    [transport |-> "nonce-tcp", kv |-> <<<<"noncefile", PathPlain>>>>],
    [transport |-> "autolaunch", kv |-> <<>>],
    [transport |-> "systemd", kv |-> <<>>],
    [transport |-> "unixexec", kv |-> <<<<"path", PathPlain>>>>] }

Lists == {<<e>> : e \in Entries} \cup {<<e, f>> : e \in Entries, f \in Entries}

Init == addr \in Lists /\ want = Endpoints(addr)
Next == UNCHANGED vars
Spec == Init /\ [][Next]_vars

(* listed order is kept; nothing is invented *)
OrderKept == Len(want) <= Len(addr)
(* a list with a usable entry yields at least one endpoint *)
UsableFound == (\E i \in 1..Len(addr) : Endpoint(addr[i]).kind # "skip") => Len(want) >= 1

(* recorded from the implementation: `want` holds what getDBusEndpoints returned for addr *)
TraceAddr == want = Endpoints(addr)
=============================================================================
