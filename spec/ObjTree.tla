------------------------------ MODULE ObjTree ------------------------------
(***************************************************************************)
(* C16: the exported-object tree seen remotely                             *)
(* (txdbus.objects.DBusObjectHandler.exportObject / unexportObject /       *)
(* getManagedObjects / handleMethodCallMessage,                            *)
(* txdbus.introspection.generateIntrospectionXML).                         *)
(* A path is a sequence of element names (<<>> is "/"), so child,          *)
(* descendant and "beneath" are prefix relations on elements, never on     *)
(* text.  Every remote view is a function of the set of exports; the       *)
(* variable `view` holds it for every path of the universe so that the     *)
(* harness can compare what a remote peer would see after every step.      *)
(***************************************************************************)
EXTENDS Naturals, Sequences, FiniteSets

CONSTANTS Paths,        \* universe of paths (sequences of element names)
          Classes       \* object classes (each with its own interfaces / readable properties)

VARIABLES exports,      \* [subset of Paths -> Classes]
          sig,          \* the signal announced by the last action
          view          \* [Paths -> [intro, managed, call]]

vars == <<exports, sig, view>>

IsStrictPrefix(q, p) == Len(q) < Len(p) /\ SubSeq(p, 1, Len(q)) = q

(* names of the immediate children of q among the exported paths *)
Children(ex, q) == {p[Len(q) + 1] : p \in {x \in DOMAIN ex : IsStrictPrefix(q, x)}}

(* exported objects strictly beneath q, with their class *)
Beneath(ex, q) == [p \in {x \in DOMAIN ex : IsStrictPrefix(q, x)} |-> ex[p]]

View(ex) ==
    [q \in Paths |->
        [intro |-> IF q \notin DOMAIN ex /\ Children(ex, q) = {}
                   THEN [ok |-> FALSE, own |-> "-", children |-> {}]
                   ELSE [ok |-> TRUE, own |-> IF q \in DOMAIN ex THEN ex[q] ELSE "-", children |-> Children(ex, q)],
         managed |-> IF q \in DOMAIN ex THEN [ok |-> TRUE, objs |-> Beneath(ex, q)] ELSE [ok |-> FALSE, objs |-> <<>>],
         call |-> IF q \in DOMAIN ex THEN "dispatched" ELSE "UnknownObject"]]

NoSig == [kind |-> "none", path |-> <<>>, cls |-> "-"]

Init == exports = <<>> /\ sig = NoSig /\ view = View(<<>>)

Export(p, k) ==
    /\ exports' = [x \in (DOMAIN exports) \cup {p} |-> IF x = p THEN k ELSE exports[x]]
    /\ sig' = [kind |-> "InterfacesAdded", path |-> p, cls |-> k]
    /\ view' = View(exports')

Unexport(p) ==
    /\ p \in DOMAIN exports
    /\ exports' = [x \in (DOMAIN exports) \ {p} |-> exports[x]]
    /\ sig' = [kind |-> "InterfacesRemoved", path |-> p, cls |-> exports[p]]
    /\ view' = View(exports')

Next == (\E p \in Paths, k \in Classes : Export(p, k)) \/ (\E p \in Paths : Unexport(p))

Spec == Init /\ [][Next]_vars

(* the view is a function of what is exported now, whatever the history *)
ViewIsFunctionOfExports == view = View(exports)
(* a path is introspectable iff it is exported or lies above an exported path *)
IntrospectableIffAncestor ==
    \A q \in Paths : view[q].intro.ok <=> (q \in DOMAIN exports \/ \E p \in DOMAIN exports : IsStrictPrefix(q, p))
(* nothing is ever reported beneath a path that is not really beneath it *)
ManagedAreBeneath == \A q \in Paths : \A p \in DOMAIN view[q].managed.objs : IsStrictPrefix(q, p) /\ p \in DOMAIN exports
=============================================================================
