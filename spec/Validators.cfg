SPECIFICATION Spec
CONSTANTS
  MaxLen = 4
  Classes = {"L", "D", "U", ".", "-", ":", "/", "X", "O"}
INVARIANT GrammarEqAutomaton
CHECK_DEADLOCK FALSE
