SPECIFICATION Spec
CONSTANTS
  Call = {1, 2}
  Cfgs <- CfgsB
  Shapes <- AllShapes
  EShapes <- AllEShapes
  Deviations = {}
INVARIANT TypeOK
INVARIANT AtMostOnce
INVARIANT ExactlyOnceWhenDone
INVARIANT RightOutcome
INVARIANT NoCross
INVARIANT NoLeak
INVARIANT LostSilent
CHECK_DEADLOCK FALSE
