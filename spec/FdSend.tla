------------------------------ MODULE FdSend ------------------------------
(***************************************************************************)
(* Sending side of descriptor passing (C20):                               *)
(* BasicDBusProtocol.sendMessage, DBusMessage._marshal (unix_fds header),  *)
(* marshal_unix_fd (argument -> index), client.callRemote (fresh list).    *)
(*                                                                         *)
(* Plan[i] is the sequence of descriptor numbers passed as the UNIX_FD     *)
(* arguments of the i-th message the application sends (numbers may        *)
(* repeat).  `wire` is what reaches the transport, in call order: one      *)
(* entry per sendFileDescriptor and one per write.                         *)
(***************************************************************************)
EXTENDS Naturals, Sequences

CONSTANTS Plan      \* <<<<fd, ...>>, ...>>

VARIABLES sent,     \* messages sent so far
          wire      \* sequence of [k |-> "fd", fd |-> n] / [k |-> "msg", i |-> i, declared |-> n, idx |-> <<...>>]

vars == <<sent, wire>>

FdEntries(fds) == [j \in 1..Len(fds) |-> [k |-> "fd", fd |-> fds[j]]]

Init == sent = 0 /\ wire = <<>>

(* the application sends message sent+1 (callRemote / sendMessage) *)
Send ==
    /\ sent < Len(Plan)
    /\ sent' = sent + 1
    /\ LET fds == Plan[sent + 1]
       IN wire' = wire \o FdEntries(fds) \o
                  << [k |-> "msg", i |-> sent + 1, declared |-> Len(fds),
                      idx |-> [j \in 1..Len(fds) |-> j - 1]] >>

Next == Send
Spec == Init /\ [][Next]_vars

(* every message's descriptors go out immediately ahead of its bytes, in argument order, and the
   header declares exactly their number *)
FdsAhead ==
    \A p \in 1..Len(wire) :
        wire[p].k = "msg" =>
            LET fds == Plan[wire[p].i] n == Len(fds)
            IN /\ wire[p].declared = n
               /\ p > n
               /\ \A j \in 1..n : wire[p - n + j - 1] = [k |-> "fd", fd |-> fds[j]]
               /\ wire[p].idx = [j \in 1..n |-> j - 1]

NoStrayFds ==
    Len(SelectSeq(wire, LAMBDA e : e.k = "fd")) =
        IF sent = 0 THEN 0 ELSE LET RECURSIVE S(_) S(i) == IF i = 0 THEN 0 ELSE Len(Plan[i]) + S(i - 1) IN S(sent)
=============================================================================
