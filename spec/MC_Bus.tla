---- MODULE MC_Bus ----
EXTENDS Bus, TLC
cMatch == "R2" :> {"S1", "S2", "NOC"} @@ "R5" :> {} @@ "R6" :> {"NOC"} @@ "R7" :> {"S1", "S2", "NOC"}
cMatch0 == <<>>
cMatchAll == "R1" :> {"S1"} @@ "R2" :> {"S1", "S2", "S3", "NOC"} @@ "R3" :> {"S2"} @@ "R4" :> {"S1"} @@ "R5" :> {} @@ "R6" :> {"NOC"}
             @@ "R7" :> {"S1", "S2", "S3", "NOC"} @@ "R8" :> {"S3"}
====
