------------------------------ MODULE EndToEnd ------------------------------
(***************************************************************************)
(* C11: a call through a proxy reaches the remote method and returns what  *)
(* it returned.  Composition of a calling client A, the built-in bus and   *)
(* an exporting client B over four byte links (A->bus, bus->A, B->bus,     *)
(* bus->B).  A link is a FIFO of messages; the environment decides how     *)
(* many bytes each read delivers: any number of complete messages and      *)
(* possibly a proper prefix of the next one (read splitting and            *)
(* coalescing).  Values are opaque: call k carries argument k and the      *)
(* method answers with result k or raises error k (constant Raises).       *)
(***************************************************************************)
EXTENDS Naturals, Sequences, FiniteSets

CONSTANTS Calls,      \* ids of the concurrent calls
          Raises      \* subset of Calls whose method raises instead of returning

Links == {"a2b", "b2a", "x2b", "b2x"}      \* a = caller, x = exporter, b = bus

VARIABLES q,          \* [Links -> Seq(message)] messages written and not yet completely delivered
          part,       \* [Links -> BOOLEAN] a proper prefix of the head message has been delivered
          state,      \* [Calls -> "new" | "called" | "done"]
          ran,        \* [Calls -> number of times the method ran with the call's own argument]
          wrongarg,   \* number of method runs that saw some other argument
          done        \* [Calls -> "none" | "value" | "error" | "wrong"] what the caller's Deferred delivered

vars == <<q, part, state, ran, wrongarg, done>>

Msg(kind, k) == [kind |-> kind, k |-> k]

Init ==
    /\ q = [l \in Links |-> <<>>] /\ part = [l \in Links |-> FALSE]
    /\ state = [k \in Calls |-> "new"] /\ ran = [k \in Calls |-> 0] /\ wrongarg = 0
    /\ done = [k \in Calls |-> "none"]

(* proxy.callRemote on the caller *)
ProxyCall(k) ==
    /\ state[k] = "new"
    /\ state' = [state EXCEPT ![k] = "called"]
    /\ q' = [q EXCEPT !["a2b"] = Append(@, Msg("call", k))]
    /\ UNCHANGED <<part, ran, wrongarg, done>>

(* what the receiver of link l does with one complete message, as updates to a record of the
   mutable parts [q, ran, done, state] *)
Process(l, m, s) ==
    CASE l = "a2b" -> [s EXCEPT !.q["b2x"] = Append(@, m)]                         \* bus forwards the call to the owner
      [] l = "b2x" -> [s EXCEPT !.ran[m.k] = @ + 1,                                  \* the exporter runs the method and replies
                                !.q["x2b"] = Append(@, Msg(IF m.k \in Raises THEN "error" ELSE "return", m.k))]
      [] l = "x2b" -> [s EXCEPT !.q["b2a"] = Append(@, m)]                         \* bus forwards the reply to the caller
      [] l = "b2a" -> [s EXCEPT !.done[m.k] = IF s.done[m.k] # "none" THEN "wrong"  \* completed twice
                                              ELSE IF m.kind = "return" THEN "value" ELSE "error",
                                !.state[m.k] = "done"]

RECURSIVE ProcessN(_, _, _)
ProcessN(l, n, s) ==
    IF n = 0 THEN s
    ELSE LET m == Head(s.q[l])
             s1 == [s EXCEPT !.q[l] = Tail(@)]
         IN ProcessN(l, n - 1, Process(l, m, s1))

(* one read on link l: n complete messages (the first possibly completing an earlier prefix) and, if
   p, a proper prefix of the message after them *)
Deliver(l, n, p) ==
    /\ n + (IF p THEN 1 ELSE 0) >= 1
    /\ n <= Len(q[l])
    /\ p => (n < Len(q[l]) /\ (n > 0 \/ ~part[l]))
    /\ LET s == ProcessN(l, n, [q |-> q, ran |-> ran, done |-> done, state |-> state])
       IN /\ q' = s.q /\ ran' = s.ran /\ done' = s.done /\ state' = s.state
    /\ part' = [part EXCEPT ![l] = IF n > 0 THEN p ELSE (part[l] \/ p)]
    /\ UNCHANGED wrongarg

Next ==
    \/ \E k \in Calls : ProxyCall(k)
    \/ \E l \in Links, n \in 0..Cardinality(Calls), p \in BOOLEAN : Deliver(l, n, p)

Fairness == \A l \in Links : WF_vars(\E n \in 1..Cardinality(Calls) : Deliver(l, n, FALSE))
Spec == Init /\ [][Next]_vars
FairSpec == Spec /\ Fairness /\ \A k \in Calls : WF_vars(ProxyCall(k))

-----------------------------------------------------------------------------
(* the method runs exactly once per call, with the call's own argument *)
RunsOnce == \A k \in Calls : ran[k] <= 1 /\ wrongarg = 0
(* a completion is what the method produced for that call *)
ResultEqual == \A k \in Calls : done[k] \in {"none", IF k \in Raises THEN "error" ELSE "value"}
DoneImpliesRan == \A k \in Calls : done[k] # "none" => ran[k] = 1
(* every call completes, whatever the delivery order *)
AllComplete == <>(\A k \in Calls : done[k] # "none")
=============================================================================
