----------------------------- MODULE Introspect -----------------------------
(***************************************************************************)
(* C15: introspection XML round-trips interface definitions                *)
(* (txdbus.interface.DBusInterface._getXml, txdbus.introspection           *)
(* .generateIntrospectionXML / getInterfacesFromXML / IntrospectionHandler,*)
(* DBusInterface.knownInterfaces, RemoteDBusObject.callRemote).            *)
(*                                                                         *)
(* An interface definition is a record                                     *)
(*   [name, methods, signals, props]                                       *)
(* methods : [subset of MNames -> [ins, outs]]  (sequences of complete     *)
(*           types, each an opaque string),  signals : [.. -> args],       *)
(* props : [.. -> [sig, access, emits]].                                   *)
(* Gen(def) is the XML as a stream of element events, members in name      *)
(* order; Handle is the SAX handler as an automaton over that stream.      *)
(* The history part models the process-wide cache of known interfaces:     *)
(* objects have identities (numbers); Declare creates one locally,         *)
(* ParseXml parses the XML of an object exporting some of them.            *)
(***************************************************************************)
EXTENDS Naturals, Sequences, FiniteSets, TLC

CONSTANTS MNames,      \* ordered sequence of member names, e.g. <<"a", "b">>
          INames,      \* set of interface names
          DefPool,     \* set of definitions (without name) used by the history machine
          MaxObjs

VARIABLES objs,        \* [1..n -> definition with name] : every interface object created so far
          known,       \* [subset of INames -> object id] : the cache of known interfaces
          result       \* ids returned by the last ParseXml, in document order

vars == <<objs, known, result>>

Restrict(f, S) == [x \in S |-> f[x]]
(* member tables are functions over all of NameSet; absent members have p = FALSE (keeps every
   table the same shape, so that TLC can compare definitions) *)
NameSet == {MNames[i] : i \in 1..Len(MNames)}
NoM == [p |-> FALSE, ins |-> <<>>, outs |-> <<>>]
NoS == [p |-> FALSE, args |-> <<>>]
NoP == [p |-> FALSE, sig |-> "", access |-> "", emits |-> ""]
DomSeq(f) == LET RECURSIVE G(_) G(i) == IF i > Len(MNames) THEN <<>>
                                        ELSE (IF f[MNames[i]].p THEN <<MNames[i]>> ELSE <<>>) \o G(i + 1)
             IN G(1)            \* the present members of f in name order

(* ---------------- XML generation ---------------- *)
Ev(k, tag, attrs) == [k |-> k, tag |-> tag, a |-> attrs]
Args(dir, types) == [i \in 1..Len(types) |-> Ev("empty", "arg", [dir |-> dir, type |-> types[i]])]

RECURSIVE Cat(_)
Cat(ss) == IF ss = <<>> THEN <<>> ELSE Head(ss) \o Cat(Tail(ss))

Gen(d) ==
    <<Ev("start", "interface", [name |-> d.name])>>
    \o Cat([i \in 1..Len(DomSeq(d.methods)) |->
              LET n == DomSeq(d.methods)[i] m == d.methods[n] IN
              <<Ev("start", "method", [name |-> n])>> \o Args("in", m.ins) \o Args("out", m.outs)
              \o <<Ev("end", "method", <<>>)>>])
    \o Cat([i \in 1..Len(DomSeq(d.signals)) |->
              LET n == DomSeq(d.signals)[i] IN
              <<Ev("start", "signal", [name |-> n])>> \o Args("none", d.signals[n].args) \o <<Ev("end", "signal", <<>>)>>])
    \o Cat([i \in 1..Len(DomSeq(d.props)) |->
              LET n == DomSeq(d.props)[i] p == d.props[n] IN
              <<Ev("start", "property", [name |-> n, type |-> p.sig, access |-> p.access]),
                Ev("empty", "annotation", [name |-> "EmitsChangedSignal", value |-> p.emits]),
                Ev("end", "property", <<>>)>>])
    \o <<Ev("end", "interface", <<>>)>>

GenDoc(ds) == Cat([i \in 1..Len(ds) |-> Gen(ds[i])])

(* ---------------- the handler automaton ---------------- *)
EmptyDef(n) == [name |-> n, methods |-> [x \in NameSet |-> NoM], signals |-> [x \in NameSet |-> NoS],
                props |-> [x \in NameSet |-> NoP]]
NoMember == [kind |-> "none"]

(* handler state: out = sequence of entries [known |-> id] / [new |-> def]; cur = definition being
   built (or NoDef); mem = member being built; skip *)
NoDef == EmptyDef("-")
H0 == [out |-> <<>>, cur |-> NoDef, mem |-> NoMember, skip |-> FALSE]

Put(f, k, x) == [f EXCEPT ![k] = x]
AccessNorm(a) == IF a \in {"read", "readwrite", "write"} THEN a ELSE "read"
(* the parser keeps "does it emit anything" only *)
EmitsNorm(e) == IF e \in {"true", "invalidates"} THEN "yes" ELSE "no"     \* strings: comparable with declarations

Step(h, e, kn, replace) ==
    IF h.skip
    THEN IF e.k = "end" /\ e.tag = "interface" THEN [h EXCEPT !.skip = FALSE] ELSE h
    ELSE
    CASE e.k = "start" /\ e.tag = "interface" ->
            IF e.a.name \in DOMAIN kn /\ ~replace
            THEN [h EXCEPT !.skip = TRUE, !.out = Append(@, [known |-> kn[e.a.name]])]
            ELSE [h EXCEPT !.cur = EmptyDef(e.a.name)]
      [] e.k = "end" /\ e.tag = "interface" ->
            IF h.cur = NoDef THEN h ELSE [h EXCEPT !.out = Append(@, [new |-> h.cur]), !.cur = NoDef]
      [] e.k = "start" /\ e.tag = "method" -> [h EXCEPT !.mem = [kind |-> "method", name |-> e.a.name, ins |-> <<>>, outs |-> <<>>]]
      [] e.k = "start" /\ e.tag = "signal" -> [h EXCEPT !.mem = [kind |-> "signal", name |-> e.a.name, args |-> <<>>]]
      [] e.k = "start" /\ e.tag = "property" ->
            [h EXCEPT !.mem = [kind |-> "property", name |-> e.a.name, sig |-> e.a.type, access |-> AccessNorm(e.a.access),
                               emits |-> "yes"]]
      [] e.tag = "arg" ->
            IF h.mem.kind = "method"
            THEN IF e.a.dir = "in" THEN [h EXCEPT !.mem.ins = Append(@, e.a.type)]
                 ELSE [h EXCEPT !.mem.outs = Append(@, e.a.type)]
            ELSE IF h.mem.kind = "signal" THEN [h EXCEPT !.mem.args = Append(@, e.a.type)] ELSE h
      [] e.tag = "annotation" ->
            IF h.mem.kind = "property" THEN [h EXCEPT !.mem.emits = EmitsNorm(e.a.value)] ELSE h
      [] e.k = "end" /\ e.tag = "method" ->
            [h EXCEPT !.cur.methods = Put(@, h.mem.name, [p |-> TRUE, ins |-> h.mem.ins, outs |-> h.mem.outs]), !.mem = NoMember]
      [] e.k = "end" /\ e.tag = "signal" -> [h EXCEPT !.cur.signals = Put(@, h.mem.name, [p |-> TRUE, args |-> h.mem.args]), !.mem = NoMember]
      [] e.k = "end" /\ e.tag = "property" ->
            [h EXCEPT !.cur.props = Put(@, h.mem.name, [p |-> TRUE, sig |-> h.mem.sig, access |-> h.mem.access, emits |-> h.mem.emits]),
                      !.mem = NoMember]
      [] OTHER -> h

RECURSIVE Handle(_, _, _, _)
(* known-interface cache is updated as soon as a new interface element starts (the constructor
   registers the object); ids of new objects are allocated in document order starting at nid *)
Handle(h, evs, kn, replace) ==
    IF evs = <<>> THEN h ELSE Handle(Step(h, Head(evs), kn, replace), Tail(evs), kn, replace)

(* what a parsed definition looks like compared with the declared one *)
Expected(d) == [d EXCEPT !.props = [n \in DOMAIN d.props |->
                                      IF d.props[n].p THEN [d.props[n] EXCEPT !.emits = EmitsNorm(d.props[n].emits)]
                                      ELSE d.props[n]]]

(* ---------------- history machine ---------------- *)
Init == objs = <<>> /\ known = <<>> /\ result = <<>>

(* DBusInterface(name, members..., [noRegister]) *)
Declare(n, d, register) ==
    /\ Len(objs) < MaxObjs
    /\ objs' = Append(objs, [d EXCEPT !.name = n] @@ [declared |-> TRUE])
    /\ known' = IF register THEN [y \in (DOMAIN known) \cup {n} |-> IF y = n THEN Len(objs) + 1 ELSE known[y]] ELSE known
    /\ result' = <<>>

(* parse the XML generated for an object exporting the interface objects ids (distinct names) *)
ParseXml(ids, replace) ==
    /\ ids # <<>>
    /\ \A i \in 1..Len(ids) : ids[i] \in 1..Len(objs) /\ objs[ids[i]].declared
    /\ \A i, j \in 1..Len(ids) : i # j => objs[ids[i]].name # objs[ids[j]].name
    /\ LET doc == GenDoc([i \in 1..Len(ids) |-> objs[ids[i]]])
           h == Handle(H0, doc, known, replace)
           news == SelectSeq(h.out, LAMBDA x : "new" \in DOMAIN x)
           base == Len(objs)
           \* position of the k-th entry among the new ones
           NewIdx(k) == Cardinality({j \in 1..k : "new" \in DOMAIN h.out[j]})
       IN /\ Len(objs) + Len(news) <= MaxObjs
          /\ objs' = objs \o [k \in 1..Len(news) |-> news[k].new @@ [declared |-> FALSE]]
          /\ result' = [k \in 1..Len(h.out) |-> IF "known" \in DOMAIN h.out[k] THEN h.out[k].known ELSE base + NewIdx(k)]
          /\ known' = [n \in (DOMAIN known) \cup {news[k].new.name : k \in 1..Len(news)} |->
                          IF \E k \in 1..Len(news) : news[k].new.name = n
                          THEN base + (CHOOSE k \in 1..Len(news) : news[k].new.name = n)
                          ELSE known[n]]

RECURSIVE SeqsNoRep(_, _)
SeqsNoRep(S, n) == IF n = 0 THEN {<<>>} ELSE {<<x>> \o r : x \in S, r \in SeqsNoRep(S, n - 1)}

IdSeqs == SeqsNoRep(1..MaxObjs, 1) \cup SeqsNoRep(1..MaxObjs, 2)     \* constant, so that TLC labels the action

Next ==
    \/ \E n \in INames, d \in DefPool, reg \in BOOLEAN : Declare(n, d, reg)
    \/ \E ids \in IdSeqs, rep \in BOOLEAN : ParseXml(ids, rep)

Spec == Init /\ [][Next]_vars

(* ---------------- properties ---------------- *)
Strip(o) == [name |-> o.name, methods |-> o.methods, signals |-> o.signals, props |-> o.props]

(* every object produced by parsing equals, member for member, the declared object whose XML it
   came from (emits reduced to a boolean as the parser does) - stated on the transition *)
RoundTripStep ==
    [][\A ids \in IdSeqs : \A rep \in BOOLEAN :
         ParseXml(ids, rep) =>
            /\ Len(result') = Len(ids)
            /\ \A k \in 1..Len(ids) :
                 LET src == objs[ids[k]] r == result'[k] IN
                 IF src.name \in DOMAIN known /\ ~rep
                 THEN r = known[src.name]                                 \* reuse
                 ELSE /\ r > Len(objs)                                    \* a fresh object ...
                      /\ Strip(objs'[r]) = Expected(Strip(src))           \* ... equal to the declaration
                      /\ known'[src.name] = r]_vars                        \* ... which is now the known one

KnownPointsToNamesake == \A n \in DOMAIN known : known[n] \in 1..Len(objs) /\ objs[known[n]].name = n

(* a proxy built on a parsed interface accepts exactly the declared argument counts *)
Accepts(o, m, nargs) == o.methods[m].p /\ nargs = Len(o.methods[m].ins)
=============================================================================
