--------------------------------- MODULE Bus ---------------------------------
(***************************************************************************)
(* The built-in bus (txdbus.bus.Bus / BusProtocol): unique names, the name *)
(* table with its queues and flags (C13), routing of addressed messages,   *)
(* sender stamping, messages to the bus itself, match rules and broadcast  *)
(* (C14).  One action = the bus reading one message from one connection    *)
(* (or a connection going away).  `out[c]` is what the bus wrote to        *)
(* connection slot c during the last action, in order.                     *)
(***************************************************************************)
EXTENDS Naturals, Sequences, FiniteSets

CONSTANTS Client,       \* connection slots (a slot may reconnect: it then gets a new unique name)
          Name,         \* well-known names
          Rules,        \* match rules clients may add (opaque ids)
          Sigs,         \* broadcast signals clients may emit (opaque ids); "NOC" stands for NameOwnerChanged
          Match,        \* [Rules -> subset of Sigs \cup {"NOC"}] which signals each rule matches
          MaxId,        \* bound on unique ids (bounds the model only)
          MaxRules      \* bound on rules held per connection (bounds the model only)

VARIABLES uid,          \* [Client -> 0 | unique id k of the live connection in that slot (":1.k")]
          nextId,       \* next unique id
          queue,        \* [Name -> Seq(Client)] : head = owner, tail = waiting, in order of arrival
          allow,        \* [Client -> [Name -> BOOLEAN]] : "allow replacement" of the slot's entry
          rules,        \* [Client -> Seq(Rules)] : rules held by the connection (a rule may be held twice)
          out           \* [Client -> Seq(message)] written by the last action

vars == <<uid, nextId, queue, allow, rules, out>>

Live(c) == uid[c] # 0
NoOut == [c \in Client |-> <<>>]
InQ(c, n) == \E i \in 1..Len(queue[n]) : queue[n][i] = c
Without(s, c) == SelectSeq(s, LAMBDA x : x # c)
Owner(n) == IF queue[n] = <<>> THEN 0 ELSE uid[queue[n][1]]

(* messages *)
Ret(tag, v) == [t |-> "return", tag |-> tag, v |-> v]
ErrM(name) == [t |-> "error", name |-> name]
SigTo(member, n) == [t |-> "signal", member |-> member, name |-> n]              \* NameAcquired / NameLost (unicast)
NOC(n, old, new) == [t |-> "signal", member |-> "NameOwnerChanged", name |-> n, old |-> old, new |-> new]
Fwd(from, kind, tag) == [t |-> "fwd", from |-> from, kind |-> kind, tag |-> tag]

(* copies of a broadcast: one per matching rule held, to every live connection *)
Copies(c, s) == Len(SelectSeq(rules[c], LAMBDA r : s \in Match[r]))
Rep(m, k) == [i \in 1..k |-> m]
Broadcast(s, m) == [c \in Client |-> IF Live(c) THEN Rep(m, Copies(c, s)) ELSE <<>>]
Merge(a, b) == [c \in Client |-> a[c] \o b[c]]
Only(c, ms) == [x \in Client |-> IF x = c THEN ms ELSE <<>>]

Init ==
    /\ uid = [c \in Client |-> 0] /\ nextId = 1
    /\ queue = [n \in Name |-> <<>>]
    /\ allow = [c \in Client |-> [n \in Name |-> FALSE]]
    /\ rules = [c \in Client |-> <<>>]
    /\ out = NoOut

(* a new connection sends Hello as its first message *)
Hello(c) ==
    /\ ~Live(c) /\ nextId <= MaxId
    /\ uid' = [uid EXCEPT ![c] = nextId]
    /\ nextId' = nextId + 1
    /\ out' = Only(c, <<Ret("Hello", nextId)>>)
    /\ UNCHANGED <<queue, allow, rules>>

(* a new connection whose first message is a call to someone else: dropped, nothing forwarded,
   but the unique id it was given is spent *)
BadFirst(c) ==
    /\ ~Live(c) /\ nextId <= MaxId
    /\ nextId' = nextId + 1
    /\ out' = Only(c, <<[t |-> "close"]>>)
    /\ UNCHANGED <<uid, queue, allow, rules>>

(* RequestName(n, flags) ; al = ALLOW_REPLACEMENT, rp = REPLACE_EXISTING, nq = DO_NOT_QUEUE *)
RequestName(c, n, al, rp, nq) ==
    /\ Live(c)
    /\ UNCHANGED <<uid, nextId, rules>>
    /\ IF queue[n] = <<>>
       THEN /\ queue' = [queue EXCEPT ![n] = <<c>>]
            /\ allow' = [allow EXCEPT ![c][n] = al]
            /\ out' = Merge(Only(c, <<SigTo("NameAcquired", n)>>),
                            Merge(Broadcast("NOC", NOC(n, 0, uid[c])), Only(c, <<Ret("RequestName", 1)>>)))
       ELSE LET o == queue[n][1] IN
            IF o = c
            THEN /\ allow' = [allow EXCEPT ![c][n] = al] /\ queue' = queue
                 /\ out' = Only(c, <<Ret("RequestName", 4)>>)
            ELSE IF rp /\ allow[o][n]
            THEN \* replacement: c becomes the owner; the old owner leaves the queue
                 /\ queue' = [queue EXCEPT ![n] = <<c>> \o Without(Tail(queue[n]), c)]
                 /\ allow' = [allow EXCEPT ![c][n] = al, ![o][n] = FALSE]
                 /\ out' = Merge(Only(o, <<SigTo("NameLost", n)>>),
                                 Merge(Only(c, <<SigTo("NameAcquired", n)>>),
                                       Merge(Broadcast("NOC", NOC(n, uid[o], uid[c])), Only(c, <<Ret("RequestName", 1)>>))))
            ELSE IF nq
            THEN \* declined to wait: gives up an earlier place in the queue as well
                 /\ queue' = [queue EXCEPT ![n] = Without(queue[n], c)]
                 /\ allow' = [allow EXCEPT ![c][n] = FALSE]
                 /\ out' = Only(c, <<Ret("RequestName", 3)>>)
            ELSE /\ queue' = [queue EXCEPT ![n] = IF InQ(c, n) THEN @ ELSE Append(@, c)]
                 /\ allow' = [allow EXCEPT ![c][n] = al]
                 /\ out' = Only(c, <<Ret("RequestName", 2)>>)

(* removal of c from the queue of n: shared by ReleaseName and disconnection *)
Leave(q, c) == Without(q, c)
Successor(n, c) == IF queue[n] # <<>> /\ queue[n][1] = c /\ Len(queue[n]) > 1 THEN queue[n][2] ELSE c

ReleaseName(c, n) ==
    /\ Live(c)
    /\ UNCHANGED <<uid, nextId, rules>>
    /\ IF queue[n] = <<>>
       THEN out' = Only(c, <<Ret("ReleaseName", 2)>>) /\ UNCHANGED <<queue, allow>>
       ELSE IF ~InQ(c, n)
       THEN out' = Only(c, <<Ret("ReleaseName", 3)>>) /\ UNCHANGED <<queue, allow>>
       ELSE LET wasOwner == queue[n][1] = c
                succ == Successor(n, c)
            IN /\ queue' = [queue EXCEPT ![n] = Leave(@, c)]
               /\ allow' = [allow EXCEPT ![c][n] = FALSE]
               /\ out' = IF wasOwner
                         THEN Merge(Only(c, <<SigTo("NameLost", n)>>),
                                    Merge(IF succ # c THEN Only(succ, <<SigTo("NameAcquired", n)>>) ELSE NoOut,
                                          Only(c, <<Ret("ReleaseName", 1)>>)))
                         ELSE Only(c, <<Ret("ReleaseName", 1)>>)

(* owner lookup: q is a well-known name, or the unique id of some slot's connection ("u", k) *)
GetNameOwner(c, n) ==
    /\ Live(c)
    /\ out' = Only(c, <<IF Owner(n) = 0 THEN ErrM("NameHasNoOwner") ELSE Ret("GetNameOwner", Owner(n))>>)
    /\ UNCHANGED <<uid, nextId, queue, allow, rules>>

GetUniqueOwner(c, k) ==
    /\ Live(c)
    /\ out' = Only(c, <<IF \E x \in Client : uid[x] = k THEN Ret("GetNameOwner", k) ELSE ErrM("NameHasNoOwner")>>)
    /\ UNCHANGED <<uid, nextId, queue, allow, rules>>

ListQueued(c, n) ==
    /\ Live(c)
    /\ out' = Only(c, <<IF queue[n] = <<>> THEN ErrM("NameHasNoOwner")
                         ELSE Ret("ListQueuedOwners", [i \in 1..Len(queue[n]) |-> uid[queue[n][i]]])>>)
    /\ UNCHANGED <<uid, nextId, queue, allow, rules>>

(* a message addressed to a well-known name (dest = <<"n", name>>) or to a unique name (<<"u", k>>);
   forged = the sender wrote some other name into the SENDER field *)
Target(dest) == IF dest[1] = "n" THEN (IF queue[dest[2]] = <<>> THEN {} ELSE {queue[dest[2]][1]})
                ELSE {x \in Client : uid[x] = dest[2]}

Send(c, dest, kind, forged) ==
    /\ Live(c)
    /\ out' = [x \in Client |-> IF x \in Target(dest) THEN <<Fwd(uid[c], kind, dest)>> ELSE <<>>]
    /\ UNCHANGED <<uid, nextId, queue, allow, rules>>

(* a message addressed to the bus itself is answered by the bus and never forwarded *)
(* calls addressed to the bus that never change its state: each is answered exactly once, by the bus, to the caller.  *)
(*   NotImplemented : a member the bus declares but does not implement (ListActivatableNames)                        *)
(*   WrongArgs      : RequestName with the flags missing          OtherPath / OtherIface : not the bus object / interface *)
(*   Ping           : org.freedesktop.DBus.Peer on the bus object ReservedName : RequestName for a unique-looking name   *)
(*   UserOfSelf     : GetConnectionUnixUser of a connection that authenticated anonymously (no user known)            *)
(*   UserOfNobody   : GetConnectionUnixUser of a name nobody owns                                                     *)
(*   OwnBusName     : RequestName for the bus's own name, which no client can own                                      *)
BusCalls == {"GetId", "HelloAgain", "NoSuchMethod", "SignalToBus", "NotImplemented", "WrongArgs", "OtherPath", "OtherIface",
             "Ping", "ReservedName", "UserOfSelf", "UserOfNobody", "OwnBusName"}
ToBus(c, what) ==
    /\ Live(c)
    /\ out' = IF what = "SignalToBus" THEN NoOut          \* a signal addressed to the bus: swallowed
               ELSE Only(c, <<CASE what = "GetId" -> Ret("GetId", 0)
                               [] what = "HelloAgain" -> ErrM("Failed")
                               [] what = "NoSuchMethod" -> ErrM("UnknownMethod")
                               [] what = "NotImplemented" -> ErrM("org.txdbus.PythonException.NotImplementedError")
                               [] what = "WrongArgs" -> ErrM("InvalidArgs")
                               [] what = "OtherPath" -> ErrM("UnknownObject")
                               [] what = "OtherIface" -> ErrM("UnknownMethod")
                               [] what = "Ping" -> Ret("Ping", 0)
                               [] what = "ReservedName" -> ErrM("InvalidArgs")
                               [] what = "OwnBusName" -> ErrM("InvalidArgs")       \* RequestName for org.freedesktop.DBus itself
                               [] what = "UserOfSelf" -> ErrM("org.freedesktop.DBus.Error")
                               [] what = "UserOfNobody" -> ErrM("NameHasNoOwner")>>)
    /\ UNCHANGED <<uid, nextId, queue, allow, rules>>

AddMatch(c, r) ==
    /\ Live(c) /\ Len(rules[c]) < MaxRules
    /\ rules' = [rules EXCEPT ![c] = Append(@, r)]
    /\ out' = Only(c, <<Ret("AddMatch", 0)>>)
    /\ UNCHANGED <<uid, nextId, queue, allow>>

RECURSIVE DropOne(_, _)
DropOne(s, r) == IF s = <<>> THEN <<>> ELSE IF Head(s) = r THEN Tail(s) ELSE <<Head(s)>> \o DropOne(Tail(s), r)

RemoveMatch(c, r) ==
    /\ Live(c)
    /\ IF \E i \in 1..Len(rules[c]) : rules[c][i] = r
       THEN rules' = [rules EXCEPT ![c] = DropOne(@, r)] /\ out' = Only(c, <<Ret("RemoveMatch", 0)>>)
       ELSE rules' = rules /\ out' = Only(c, <<ErrM("MatchRuleNotFound")>>)
    /\ UNCHANGED <<uid, nextId, queue, allow>>

(* a signal without destination *)
Emit(c, s) ==
    /\ Live(c)
    /\ out' = Broadcast(s, Fwd(uid[c], "signal", <<"b", s>>))
    /\ UNCHANGED <<uid, nextId, queue, allow, rules>>

(* every order in which the names can be gone through *)
NameOrders == {f \in [1..Cardinality(Name) -> Name] : \A i, j \in 1..Cardinality(Name) : i # j => f[i] # f[j]}

(* the connection goes away: it leaves every queue (successors are told), its rules are dropped *)
Disconnect(c) ==
    /\ Live(c)
    /\ uid' = [uid EXCEPT ![c] = 0]
    /\ queue' = [n \in Name |-> Leave(queue[n], c)]
    /\ allow' = [allow EXCEPT ![c] = [n \in Name |-> FALSE]]
    /\ rules' = [rules EXCEPT ![c] = <<>>]
    /\ \E ord \in NameOrders :        \* successors are told name by name, in no prescribed order of the names
         out' = [x \in Client |->
                   LET got == {n \in Name : Successor(n, c) = x /\ x # c}
                       mine == SelectSeq(ord, LAMBDA n : n \in got)
                   IN [i \in 1..Len(mine) |-> SigTo("NameAcquired", mine[i])]]
    /\ nextId' = nextId

Next ==
    \/ \E c \in Client : Hello(c) \/ BadFirst(c) \/ Disconnect(c)
    \/ \E c \in Client, n \in Name, al \in BOOLEAN, rp \in BOOLEAN, nq \in BOOLEAN : RequestName(c, n, al, rp, nq)
    \/ \E c \in Client, n \in Name : ReleaseName(c, n) \/ GetNameOwner(c, n) \/ ListQueued(c, n)
    \/ \E c \in Client, k \in 1..MaxId : GetUniqueOwner(c, k)
    \/ \E c \in Client, n \in Name, kind \in {"call", "return", "error", "signal"}, f \in BOOLEAN : Send(c, <<"n", n>>, kind, f)
    \/ \E c \in Client, k \in 1..MaxId, kind \in {"call", "return", "error", "signal"}, f \in BOOLEAN : Send(c, <<"u", k>>, kind, f)
    \/ \E c \in Client, w \in BusCalls : ToBus(c, w)
    \/ \E c \in Client, r \in Rules : AddMatch(c, r) \/ RemoveMatch(c, r)
    \/ \E c \in Client, s \in Sigs : Emit(c, s)

Spec == Init /\ [][Next]_vars

(* sub-alphabets used by the bounded instances: the name table (C13) and routing (C14) *)
NextNames ==
    \/ \E c \in Client : Hello(c) \/ Disconnect(c)
    \/ \E c \in Client, n \in Name, al \in BOOLEAN, rp \in BOOLEAN, nq \in BOOLEAN : RequestName(c, n, al, rp, nq)
    \/ \E c \in Client, n \in Name : ReleaseName(c, n) \/ GetNameOwner(c, n) \/ ListQueued(c, n)
    \/ \E c \in Client, k \in 1..MaxId : GetUniqueOwner(c, k)
    \/ \E c \in Client : ToBus(c, "OwnBusName")
SpecNames == Init /\ [][NextNames]_vars

NextRouting ==
    \/ \E c \in Client : Hello(c) \/ BadFirst(c) \/ Disconnect(c)
    \/ \E c \in Client, n \in Name : RequestName(c, n, TRUE, TRUE, FALSE) \/ ReleaseName(c, n)
    \/ \E c \in Client, n \in Name, kind \in {"call", "return", "error", "signal"}, f \in BOOLEAN : Send(c, <<"n", n>>, kind, f)
    \/ \E c \in Client, k \in 1..MaxId, kind \in {"call", "signal"}, f \in BOOLEAN : Send(c, <<"u", k>>, kind, f)
    \/ \E c \in Client, w \in BusCalls : ToBus(c, w)
    \/ \E c \in Client, r \in Rules : AddMatch(c, r) \/ RemoveMatch(c, r)
    \/ \E c \in Client, s \in Sigs : Emit(c, s)
SpecRouting == Init /\ [][NextRouting]_vars

-----------------------------------------------------------------------------
(* C13 *)
LiveOwner == \A n \in Name : queue[n] # <<>> => Live(queue[n][1])
NoDead == \A n \in Name : \A i \in 1..Len(queue[n]) : Live(queue[n][i])
NoDup == \A n \in Name : \A i, j \in 1..Len(queue[n]) : i # j => queue[n][i] # queue[n][j]
(* the reply code states the caller's resulting relation to the name *)
ReplySound ==
    [][\A c \in Client, n \in Name, al \in BOOLEAN, rp \in BOOLEAN, nq \in BOOLEAN :
         RequestName(c, n, al, rp, nq) =>
            LET code == out'[c][Len(out'[c])].v IN
            /\ code \in {1, 4} <=> (queue'[n] # <<>> /\ queue'[n][1] = c)
            /\ code = 2 <=> (queue'[n] # <<>> /\ queue'[n][1] # c /\ \E i \in 2..Len(queue'[n]) : queue'[n][i] = c)
            /\ code = 3 <=> ~\E i \in 1..Len(queue'[n]) : queue'[n][i] = c
            /\ (code = 3 => nq) /\ (code = 2 => ~nq)]_vars
(* a request replaces the owner only if the owner allowed replacement and the requester asked for it *)
ReplaceOnlyIfAgreed ==
    [][\A c \in Client, n \in Name, al \in BOOLEAN, rp \in BOOLEAN, nq \in BOOLEAN :
         (RequestName(c, n, al, rp, nq) /\ queue[n] # <<>> /\ queue[n][1] # c /\ queue'[n] # <<>> /\ queue'[n][1] = c)
            => rp /\ allow[queue[n][1]][n]]_vars
(* a client that released a name neither owns nor waits for it *)
ReleasedIsGone ==
    [][\A c \in Client, n \in Name :
         (ReleaseName(c, n) /\ out'[c] # <<>> /\ out'[c][Len(out'[c])].v = 1) => ~\E i \in 1..Len(queue'[n]) : queue'[n][i] = c]_vars
(* on release / disconnection the longest-waiting client becomes the owner and is told *)
Succession ==
    [][\A n \in Name : (queue[n] # <<>> /\ Len(queue[n]) > 1 /\ (queue'[n] = Tail(queue[n])))
          => \E i \in 1..Len(out'[queue[n][2]]) : out'[queue[n][2]][i] = SigTo("NameAcquired", n)]_vars
(* C14 *)
Fresh == \A c \in Client : uid[c] < nextId
UniqueIds == \A c, d \in Client : c # d /\ Live(c) => uid[c] # uid[d]
NeverReused == [][\A c \in Client : uid'[c] # uid[c] /\ uid'[c] # 0 => uid'[c] >= nextId]_vars
(* nothing is ever written to a slot without a live connection, except the close of a bad first call *)
NoGhostDelivery == \A c \in Client : ~Live(c) => \A i \in 1..Len(out[c]) : out[c][i].t = "close"
=============================================================================
