----------------------------- MODULE AuthServer -----------------------------
(***************************************************************************)
(* Server side of the DBus authentication handshake (C06):                 *)
(* txdbus.authentication.BusAuthenticator + mechanisms, driven by          *)
(* txdbus.protocol.BasicDBusProtocol.dataReceived in line mode.            *)
(* One action per received line class; written from the server state       *)
(* table of the DBus specification ("Authentication state diagrams").      *)
(*                                                                         *)
(* Mechanism outcomes: with Real = FALSE every mechanism step may accept,  *)
(* challenge or reject (chosen by the environment: parameter o); with      *)
(* Real = TRUE the mechanisms are EXTERNAL, DBUS_COOKIE_SHA1 and ANONYMOUS  *)
(* and the outcome is determined by the credentials and payload presented. *)
(***************************************************************************)
EXTENDS Naturals, Sequences, FiniteSets

CONSTANTS Mechs,        \* names of the mechanisms the bus offers
          Real,         \* BOOLEAN: real mechanism semantics (Mechs = {"EXTERNAL","DBUS_COOKIE_SHA1","ANONYMOUS"})
          Creds,        \* BOOLEAN: peer credentials available (EXTERNAL)
          MaxRejects    \* 5

VARIABLES st,           \* "WaitAuth" | "WaitData" | "WaitBegin" | "Authed" | "Closed"
          mech,         \* current mechanism or "none"
          mstep,        \* steps the current mechanism has taken
          rejects,      \* rejections so far
          accepted,     \* ghost: a mechanism accepted the peer in the current exchange
          first,        \* the first byte has not been seen yet
          resp,         \* responses written by the last action: sequence over {"REJECTED","OK","DATA","ERROR","close"}
          cookie        \* [live, made, deleted] cookie-file lifecycle of DBUS_COOKIE_SHA1

vars == <<st, mech, mstep, rejects, accepted, first, resp, cookie>>

Outcomes == {"ok", "cont", "rej"}
IRs == {"none", "user", "baduser", "badhex"}        \* initial response: absent / a user name the bus knows / unknown user / not hex
Payloads == {"empty", "right", "wrong", "badhex"}    \* DATA payload: empty / the right answer / a wrong answer / not hex

Open == st \notin {"Authed", "Closed"}

Init ==
    /\ st = "WaitAuth" /\ mech = "none" /\ mstep = 0 /\ rejects = 0 /\ accepted = FALSE /\ first = TRUE
    /\ resp = <<>> /\ cookie = [live |-> FALSE, made |-> 0, deleted |-> 0]

(* what a real mechanism decides *)
RealOutcome(m, stepno, ir, p) ==
    CASE m = "ANONYMOUS" -> "ok"
      [] m = "EXTERNAL" -> IF ~Creds THEN "rej" ELSE IF stepno = 0 THEN "cont" ELSE "ok"
      [] m = "DBUS_COOKIE_SHA1" ->
            IF stepno = 0 THEN (IF ir = "user" THEN "cont" ELSE "rej")
            ELSE IF stepno = 1 THEN (IF p = "right" THEN "ok" ELSE "rej")
            ELSE "rej"
      [] OTHER -> "rej"

OutcomeAllowed(o, m, stepno, ir, p) == IF Real THEN o = RealOutcome(m, stepno, ir, p) ELSE o \in Outcomes

(* cancel + count + answer: the body of reject() *)
Reject ==
    /\ mech' = "none" /\ mstep' = 0 /\ accepted' = FALSE
    /\ rejects' = rejects + 1
    /\ cookie' = IF cookie.live THEN [cookie EXCEPT !.live = FALSE, !.deleted = @ + 1] ELSE cookie   \* cancel()
    /\ IF rejects + 1 > MaxRejects
       THEN st' = "Closed" /\ resp' = <<"close">>
       ELSE st' = "WaitAuth" /\ resp' = <<"REJECTED">>

Say(r) == resp' = <<r>>
Same == UNCHANGED <<st, mech, mstep, rejects, accepted, cookie>>

(* one step of the current mechanism with outcome o *)
StepMech(m, stepno, o) ==
    /\ rejects' = rejects
    /\ LET ck == IF Real /\ m = "DBUS_COOKIE_SHA1"
                 THEN (IF stepno = 0 /\ o = "cont" THEN [cookie EXCEPT !.live = TRUE, !.made = @ + 1]
                       ELSE IF stepno = 1 /\ cookie.live THEN [cookie EXCEPT !.live = FALSE, !.deleted = @ + 1]
                       ELSE cookie)
                 ELSE cookie
       IN CASE o = "ok" -> /\ st' = "WaitBegin" /\ mech' = m /\ mstep' = (IF stepno >= 2 THEN 2 ELSE stepno + 1) /\ accepted' = TRUE
                           /\ cookie' = ck /\ Say("OK")
            [] o = "cont" -> /\ st' = "WaitData" /\ mech' = m /\ mstep' = (IF stepno >= 2 THEN 2 ELSE stepno + 1) /\ accepted' = FALSE
                             /\ cookie' = ck /\ Say("DATA")

(* AUTH [mechanism [initial response]] *)
Auth(m, ir, o) ==
    /\ Open /\ ~first
    /\ IF st # "WaitAuth" THEN Same /\ Say("ERROR")
       ELSE IF m \notin Mechs THEN Reject                         \* no mechanism named, or one not offered
       ELSE IF ir = "badhex" THEN /\ Say("ERROR") /\ mech' = m /\ mstep' = 0
                                  /\ UNCHANGED <<st, rejects, accepted, cookie>>
       ELSE /\ OutcomeAllowed(o, m, 0, ir, "empty")
            /\ IF o = "rej" THEN Reject ELSE StepMech(m, 0, o)
    /\ first' = first

(* DATA [hex] *)
Data(p, o) ==
    /\ Open /\ ~first
    /\ IF st # "WaitData" THEN Same /\ Say("ERROR")
       ELSE IF p = "badhex" THEN Same /\ Say("ERROR")
       ELSE /\ OutcomeAllowed(o, mech, mstep, "none", p)
            /\ IF o = "rej"
               THEN \* the cookie mechanism deletes its cookie in step two, then reject() finds nothing to cancel
                    Reject
               ELSE StepMech(mech, mstep, o)
    /\ first' = first

Begin ==
    /\ Open /\ ~first
    /\ IF st = "WaitBegin"
       THEN st' = "Authed" /\ resp' = <<>> /\ UNCHANGED <<mech, mstep, rejects, accepted, cookie>>
       ELSE st' = "Closed" /\ resp' = <<"close">> /\ UNCHANGED <<mech, mstep, rejects, accepted, cookie>>
    /\ first' = first

Cancel ==
    /\ Open /\ ~first
    /\ IF st \in {"WaitData", "WaitBegin"} THEN Reject ELSE Same /\ Say("ERROR")
    /\ first' = first

ErrorLine ==
    /\ Open /\ ~first
    /\ Reject
    /\ first' = first

(* NEGOTIATE_UNIX_FD, an unknown command, an empty line, bytes that are not text *)
Other(kind) ==
    /\ Open /\ ~first
    /\ Same /\ Say("ERROR")
    /\ first' = first

(* a line (or unterminated data) longer than 16 KiB *)
TooLong ==
    /\ Open /\ ~first
    /\ st' = "Closed" /\ resp' = <<"close">>
    /\ UNCHANGED <<mech, mstep, rejects, accepted, cookie, first>>

(* the very first byte of the connection *)
FirstByte(nul) ==
    /\ first /\ st = "WaitAuth"
    /\ first' = FALSE
    /\ IF nul THEN st' = st /\ resp' = <<>> ELSE st' = "Closed" /\ resp' = <<"close">>
    /\ UNCHANGED <<mech, mstep, rejects, accepted, cookie>>

(* anything that arrives after the connection was told to close - in the same read as the fatal
   line or later - is ignored: no answer, never authenticated *)
AfterClose(kind) ==
    /\ st = "Closed"
    /\ resp' = <<>>
    /\ UNCHANGED <<st, mech, mstep, rejects, accepted, first, cookie>>

Next ==
    \/ \E kind \in {"login", "begin"} : AfterClose(kind)
    \/ \E nul \in BOOLEAN : FirstByte(nul)
    \/ \E m \in Mechs \cup {"none", "unknown"}, ir \in IRs, o \in Outcomes : Auth(m, ir, o)
    \/ \E p \in Payloads, o \in Outcomes : Data(p, o)
    \/ Begin \/ Cancel \/ ErrorLine \/ TooLong
    \/ \E k \in {"negotiate", "unknown", "empty", "nontext"} : Other(k)

Spec == Init /\ [][Next]_vars

-----------------------------------------------------------------------------
TypeOK == /\ st \in {"WaitAuth", "WaitData", "WaitBegin", "Authed", "Closed"}
          /\ mech \in Mechs \cup {"none"} /\ rejects \in 0..(MaxRejects + 1)

(* authenticated only after a mechanism accepted the peer in the current exchange *)
Safety == st = "Authed" => accepted /\ mech \in Mechs
AcceptedMeansWaitBegin == (st = "WaitBegin" => accepted) /\ (accepted => st \in {"WaitBegin", "Authed", "Closed"})
Limit == rejects > MaxRejects <=> (st = "Closed" /\ rejects = MaxRejects + 1)
AuthedOnlyByBegin == [][st' = "Authed" /\ st # "Authed" => st = "WaitBegin" /\ accepted]_vars
(* a wrong cookie response is never accepted *)
WrongNeverAccepted == [][\A o \in Outcomes : Real /\ st = "WaitData" /\ mech = "DBUS_COOKIE_SHA1" /\ Data("wrong", o) => st' # "WaitBegin"]_vars
(* the cookie is deleted exactly once and exists only while its challenge is outstanding *)
CookieOnce == /\ cookie.deleted + (IF cookie.live THEN 1 ELSE 0) = cookie.made
              /\ cookie.live => st \in {"WaitData", "Closed"} /\ mech = "DBUS_COOKIE_SHA1"   \* an aborted connection may leave it behind
(* acceptable credentials are accepted: from the initial state the canonical exchanges reach Authed
   (checked by TLC as reachability via the negation being violated is not needed: the replayed
   graph contains these paths; see harness) *)
=============================================================================
