------------------------------ MODULE ConnLife ------------------------------
(***************************************************************************)
(* C09: life cycle of a client connection                                  *)
(* (txdbus.client.connect / DBusClientFactory / DBusClientConnection       *)
(* .connectionAuthenticated / _cbGotHello / connectionLost,                *)
(* txdbus.endpoints.getDBusEndpoints, DBusObjectHandler proxies).          *)
(* The bus address list is a constant: Eps[i] = TRUE iff the i-th endpoint *)
(* is reachable.  The transport may close at every point after it was      *)
(* established (crash points).                                             *)
(***************************************************************************)
EXTENDS Naturals, Sequences, FiniteSets

CONSTANTS Eps,         \* sequence of BOOLEAN: reachability of the endpoints, in listed order
          Calls,       \* ids of calls that may be issued on the ready connection
          Cbs          \* ids of disconnect callbacks that may be registered

VARIABLES phase,       \* "connecting" | "failed" | "auth" | "closing" | "hello" | "hellofailed" | "ready" | "closed"
          idx,         \* endpoint being tried
          tried,       \* number of endpoints tried so far
          fired,       \* outcome delivered by the Deferred of connect(): "none" | "ok" | "fail"
          nfired,      \* how often it fired
          call,        \* [Calls -> "new" | "out" | "lost" | "ok" | "timeout" | "cancelled"]
          timers,      \* calls with an armed deadline
          cb,          \* [Cbs -> "unreg" | "conn" | "explicit" | "intro" | "dropped" | "off-conn" | "off-explicit" | "off-intro"]
                       \* where the callback is registered ("off-": cancelled again, its holder still there)
          ran,         \* [Cbs -> number of times the callback ran]
          late         \* number of things that fired after the connection was closed

vars == <<phase, idx, tried, fired, nfired, call, timers, cb, ran, late>>

N == Len(Eps)

Init ==
    /\ idx = 1 /\ tried = IF N = 0 THEN 0 ELSE 1
    /\ phase = IF N = 0 THEN "failed" ELSE "connecting"
    /\ fired = IF N = 0 THEN "fail" ELSE "none"
    /\ nfired = IF N = 0 THEN 1 ELSE 0
    /\ call = [k \in Calls |-> "new"] /\ timers = {}
    /\ cb = [x \in Cbs |-> "unreg"] /\ ran = [x \in Cbs |-> 0] /\ late = 0

Fire(o) == IF fired = "none" THEN fired' = o /\ nfired' = nfired + 1 ELSE UNCHANGED <<fired, nfired>>
Rest == UNCHANGED <<call, timers, cb, ran, late>>

(* the endpoint being tried cannot be reached: try the next one, or give up *)
EpFail(why) ==          \* why: "refused" | "dns" | "timeout" - makes no difference
    /\ phase = "connecting" /\ ~Eps[idx]
    /\ IF idx = N
       THEN phase' = "failed" /\ Fire("fail") /\ UNCHANGED <<idx, tried>>
       ELSE idx' = idx + 1 /\ tried' = tried + 1 /\ UNCHANGED <<phase, fired, nfired>>
    /\ Rest

EpOk ==
    /\ phase = "connecting" /\ Eps[idx]
    /\ phase' = "auth" /\ UNCHANGED <<idx, tried, fired, nfired>> /\ Rest

AuthOk == phase = "auth" /\ phase' = "hello" /\ UNCHANGED <<idx, tried, fired, nfired>> /\ Rest
(* the server refuses every mechanism: the client asks the transport to close *)
AuthRefused == phase = "auth" /\ phase' = "closing" /\ UNCHANGED <<idx, tried, fired, nfired>> /\ Rest

HelloOk == phase = "hello" /\ phase' = "ready" /\ Fire("ok") /\ UNCHANGED <<idx, tried>> /\ Rest
HelloErr == phase = "hello" /\ phase' = "hellofailed" /\ Fire("fail") /\ UNCHANGED <<idx, tried>> /\ Rest

(* ---- on the ready connection ---- *)
IssueCall(k, withTimer) ==
    /\ phase = "ready" /\ call[k] = "new"
    /\ call' = [call EXCEPT ![k] = "out"]
    /\ timers' = IF withTimer THEN timers \cup {k} ELSE timers
    /\ UNCHANGED <<phase, idx, tried, fired, nfired, cb, ran, late>>

(* the caller cancels the Deferred of an outstanding call: it fires at once (CancelledError); the connection keeps
   its bookkeeping - and the armed deadline - until a reply, the deadline or the loss of the connection clears it,
   none of which may reach the caller a second time *)
CancelCall(k) ==
    /\ phase = "ready" /\ call[k] = "out"
    /\ call' = [call EXCEPT ![k] = "cancelled"]
    /\ UNCHANGED <<phase, idx, tried, fired, nfired, timers, cb, ran, late>>

ReplyCall(k) ==
    /\ phase = "ready" /\ call[k] \in {"out", "cancelled"}
    /\ call' = [call EXCEPT ![k] = IF @ = "out" THEN "ok" ELSE @] /\ timers' = timers \ {k}
    /\ UNCHANGED <<phase, idx, tried, fired, nfired, cb, ran, late>>

(* the deadline of call k passes before any reply *)
ExpireCall(k) ==
    /\ phase = "ready" /\ call[k] \in {"out", "cancelled"} /\ k \in timers
    /\ call' = [call EXCEPT ![k] = IF @ = "out" THEN "timeout" ELSE @] /\ timers' = timers \ {k}
    /\ UNCHANGED <<phase, idx, tried, fired, nfired, cb, ran, late>>

(* register callback x: on the connection, or on a proxy obtained with explicit interfaces, or on an
   introspected proxy (all proxies are for the same remote object, i.e. share bus name and path) *)
Register(x, where) ==
    /\ phase = "ready" /\ cb[x] = "unreg"
    /\ cb' = [cb EXCEPT ![x] = where]
    /\ UNCHANGED <<phase, idx, tried, fired, nfired, call, timers, ran, late>>

(* the callback is cancelled (cancelNotifyOnDisconnect) and may be registered again on the same connection / proxy *)
Off(w) == CASE w = "conn" -> "off-conn" [] w = "explicit" -> "off-explicit" [] w = "intro" -> "off-intro"
On(w) == CASE w = "off-conn" -> "conn" [] w = "off-explicit" -> "explicit" [] w = "off-intro" -> "intro"
Unregister(x) ==
    /\ phase = "ready" /\ cb[x] \in {"conn", "explicit", "intro"}
    /\ cb' = [cb EXCEPT ![x] = Off(@)]
    /\ UNCHANGED <<phase, idx, tried, fired, nfired, call, timers, ran, late>>
Reregister(x) ==
    /\ phase = "ready" /\ cb[x] \in {"off-conn", "off-explicit", "off-intro"}
    /\ cb' = [cb EXCEPT ![x] = On(@)]
    /\ UNCHANGED <<phase, idx, tried, fired, nfired, call, timers, ran, late>>

(* the application drops its last reference to the proxy carrying callback x *)
DropProxy(x) ==
    /\ phase = "ready" /\ cb[x] \in {"explicit", "intro", "off-explicit", "off-intro"}
    /\ cb' = [cb EXCEPT ![x] = "dropped"]
    /\ UNCHANGED <<phase, idx, tried, fired, nfired, call, timers, ran, late>>

(* the transport closes - at any point after it was established *)
Close ==
    /\ phase \in {"auth", "closing", "hello", "hellofailed", "ready"}
    /\ phase' = "closed"
    /\ Fire("fail")
    /\ call' = [k \in Calls |-> IF call[k] = "out" THEN "lost" ELSE call[k]]
    /\ timers' = {}
    /\ ran' = [x \in Cbs |-> IF cb[x] \in {"conn", "explicit", "intro"} THEN ran[x] + 1 ELSE ran[x]]
    /\ UNCHANGED <<idx, tried, cb, late>>

(* the same, with callback x cancelling itself from inside its own invocation (a one-shot listener cleaning up): every
   registered callback still runs once *)
CloseCancelling(x) ==
    /\ cb[x] \in {"conn", "explicit", "intro"}
    /\ Close

(* the same, with user code that reacts to the loss by issuing further calls on the connection (a retry from the
   errback of the outstanding call that fails first, or from a disconnect callback): the calls in R are issued and fail
   within the handling of the loss - nothing is left to fire later *)
CloseRetry(R) ==
    /\ phase = "ready" /\ R # {} /\ \A k \in R : call[k] = "new"
    /\ \E k \in Calls : call[k] = "out"
    /\ phase' = "closed"
    /\ Fire("fail")
    /\ call' = [k \in Calls |-> IF call[k] = "out" \/ k \in R THEN "lost" ELSE call[k]]
    /\ timers' = {}
    /\ ran' = [x \in Cbs |-> IF cb[x] \in {"conn", "explicit", "intro"} THEN ran[x] + 1 ELSE ran[x]]
    /\ UNCHANGED <<idx, tried, cb, late>>

(* time passes after the end: nothing may fire *)
Quiet ==
    /\ phase \in {"closed", "failed"}
    /\ UNCHANGED vars

Next ==
    \/ (\E why \in {"refused", "dns", "timeout"} : EpFail(why)) \/ EpOk \/ AuthOk \/ AuthRefused \/ HelloOk \/ HelloErr \/ Close \/ Quiet
    \/ \E k \in Calls, t \in BOOLEAN : IssueCall(k, t)
    \/ \E k \in Calls : ReplyCall(k) \/ ExpireCall(k) \/ CancelCall(k)
    \/ \E x \in Cbs, w \in {"conn", "explicit", "intro"} : Register(x, w)
    \/ \E x \in Cbs : DropProxy(x) \/ Unregister(x) \/ Reregister(x)
    \/ \E R \in SUBSET Calls : CloseRetry(R)
    \/ \E x \in Cbs : CloseCancelling(x)

Spec == Init /\ [][Next]_vars

-----------------------------------------------------------------------------
Once == nfired <= 1
(* connecting always concludes: once the attempt is over - ready, or failed for good - the Deferred fired *)
Concludes == phase \in {"failed", "hellofailed", "ready", "closed"} => nfired = 1
ReadyMeansOk == (phase = "ready" => fired = "ok") /\ (fired = "ok" => phase \in {"ready", "closed"})
(* the connection is made on the first reachable address, the earlier ones having been tried in order *)
FirstReachable == phase \notin {"connecting", "failed"} => Eps[idx] /\ \A j \in 1..(idx - 1) : ~Eps[j]
AllTriedBeforeGivingUp == phase = "failed" => \A j \in 1..N : ~Eps[j]
(* loss fails every outstanding call, cancels its timer, runs every live callback exactly once *)
LossFailsAll == phase = "closed" => (\A k \in Calls : call[k] # "out") /\ timers = {}
CallbacksOnce == \A x \in Cbs : ran[x] = IF phase = "closed" /\ fired = "ok" /\ cb[x] \in {"conn", "explicit", "intro"} THEN 1 ELSE 0
Silence == late = 0
=============================================================================
