SPECIFICATION Spec
CONSTANTS
  MaxSig = 6
  Depth = 1
INVARIANT Concat
INVARIANT EachComplete
INVARIANT ParserAgrees
INVARIANT DocumentedInferenceOK
CHECK_DEADLOCK FALSE
