----------------------------- MODULE CookieJar -----------------------------
(***************************************************************************)
(* DBUS_COOKIE_SHA1 on the bus side with several connections at once       *)
(* (txdbus.authentication.BusCookieAuthenticator: _create_cookie,          *)
(* _get_cookies, _delete_cookie, step one / step two, cancel).  All        *)
(* connections of one user share one keyring file; each authenticator      *)
(* remembers the cookie it created and checks the answer against that; a   *)
(* conforming client finds the cookie by looking up the id it was given in *)
(* the file.  `file` is the file as a sequence of lines [id, val, old]     *)
(* (old = older than the 30 s lifetime: ignored and dropped by the next    *)
(* writer).  One action = one authentication line read by the bus, the     *)
(* loss of a connection, or time passing.                                  *)
(***************************************************************************)
EXTENDS Naturals, Sequences, FiniteSets

CONSTANTS Conn,          \* connections of the same user
          MaxCookies,    \* bound on the cookies created (bounds the model only)
          DeleteByValue  \* TRUE: an authenticator removes the line holding ITS cookie (id and value);
                         \* FALSE: the first live line with its id (the behaviour txdbus had)

VARIABLES file,          \* Seq([id, val, old])
          held,          \* [Conn -> [id, val]] the cookie the connection's authenticator created (None: none)
          st,            \* [Conn -> "idle" | "challenged" | "authed" | "gone"]
          made,          \* number of cookies created so far (cookie values are 1, 2, ...)
          resp           \* [Conn -> "-" | "DATA" | "OK" | "REJECTED"] answer to the connection's last line

vars == <<file, held, st, made, resp>>

None == [id |-> 0, val |-> 0]
Live(f) == SelectSeq(f, LAMBDA e : ~e.old)
MaxOf(S) == IF S = {} THEN 0 ELSE CHOOSE m \in S : \A x \in S : x <= m

(* the line a reader looking for cookie `id` finds: the first one carrying it *)
Lookup(f, id) == LET S == {i \in 1..Len(f) : f[i].id = id}
                 IN IF S = {} THEN 0 ELSE f[CHOOSE i \in S : \A j \in S : i <= j].val

RECURSIVE DropFirst(_, _)
DropFirst(f, h) ==
    IF f = <<>> THEN <<>>
    ELSE IF Head(f).id = h.id /\ (~DeleteByValue \/ Head(f).val = h.val) THEN Tail(f)
    ELSE <<Head(f)>> \o DropFirst(Tail(f), h)

(* the connection's own cookie is still in the file and within its lifetime *)
Fresh(c) == \E i \in 1..Len(file) : file[i].val = held[c].val /\ ~file[i].old

Init ==
    /\ file = <<>> /\ held = [c \in Conn |-> None] /\ st = [c \in Conn |-> "idle"]
    /\ made = 0 /\ resp = [c \in Conn |-> "-"]

(* AUTH DBUS_COOKIE_SHA1 <user> : a cookie is created (expired lines are dropped by the rewrite) and its
   id sent in the challenge *)
Challenge(c) ==
    /\ st[c] = "idle" /\ made < MaxCookies
    /\ LET live == Live(file)
           id == 1 + MaxOf({live[i].id : i \in 1..Len(live)})
       IN /\ file' = Append(live, [id |-> id, val |-> made + 1, old |-> FALSE])
          /\ held' = [held EXCEPT ![c] = [id |-> id, val |-> made + 1]]
    /\ made' = made + 1
    /\ st' = [st EXCEPT ![c] = "challenged"]
    /\ resp' = [resp EXCEPT ![c] = "DATA"]

(* the file after the authenticator of c removed its cookie *)
Removed(c) == DropFirst(Live(file), held[c])

(* DATA <response> : a conforming client hashes the cookie it finds under the id it was given; "wrong"
   is any other response.  The server compares with the cookie it created. *)
Answer(c, kind) ==
    /\ st[c] = "challenged"
    /\ LET right == kind = "conforming" /\ Lookup(file, held[c].id) = held[c].val
       IN /\ st' = [st EXCEPT ![c] = IF right THEN "authed" ELSE "idle"]
          /\ resp' = [resp EXCEPT ![c] = IF right THEN "OK" ELSE "REJECTED"]
    /\ file' = Removed(c)
    /\ held' = [held EXCEPT ![c] = None]
    /\ UNCHANGED made

(* CANCEL / ERROR while challenged: the exchange is abandoned and the cookie removed *)
Cancel(c) ==
    /\ st[c] = "challenged"
    /\ file' = Removed(c) /\ held' = [held EXCEPT ![c] = None]
    /\ st' = [st EXCEPT ![c] = "idle"] /\ resp' = [resp EXCEPT ![c] = "REJECTED"]
    /\ UNCHANGED made

(* the connection goes away; a cookie it was challenged with stays in the file until it expires *)
Drop(c) ==
    /\ st[c] # "gone"
    /\ st' = [st EXCEPT ![c] = "gone"] /\ resp' = [resp EXCEPT ![c] = "-"]
    /\ UNCHANGED <<file, held, made>>

(* more than the cookie lifetime passes *)
Expire ==
    /\ \E i \in 1..Len(file) : ~file[i].old
    /\ file' = [i \in 1..Len(file) |-> [file[i] EXCEPT !.old = TRUE]]
    /\ UNCHANGED <<held, st, made, resp>>

Next ==
    \/ \E c \in Conn : Challenge(c) \/ Cancel(c) \/ Drop(c)
    \/ \E c \in Conn, k \in {"conforming", "wrong"} : Answer(c, k)
    \/ Expire

Spec == Init /\ [][Next]_vars

-----------------------------------------------------------------------------
(* no two live cookies share an id *)
UniqueLiveIds == \A i, j \in 1..Len(file) : i # j /\ ~file[i].old /\ ~file[j].old => file[i].id # file[j].id

(* a client that was challenged finds its own cookie under the id it was given, as long as it is fresh *)
OwnCookieFound == \A c \in Conn : st[c] = "challenged" /\ Fresh(c) => Lookup(file, held[c].id) = held[c].val

(* a conforming client whose cookie has not expired is accepted; a wrong response never is *)
ConformingAccepted == [][\A c \in Conn : Answer(c, "conforming") /\ Fresh(c) => st'[c] = "authed"]_vars
WrongNeverAccepted == [][\A c \in Conn : Answer(c, "wrong") => st'[c] # "authed"]_vars

(* whatever one connection does, it never takes away the fresh cookie of another *)
NoCollateral == [][\A c, d \in Conn : c # d /\ st[d] = "challenged" /\ Fresh(d) /\ ~Expire
                       /\ (Answer(c, "conforming") \/ Answer(c, "wrong") \/ Cancel(c) \/ Challenge(c) \/ Drop(c))
                    => Fresh(d)']_vars

(* nothing is left behind by exchanges that ended on a line *)
NoLeak == (\A c \in Conn : st[c] \in {"idle", "authed"}) /\ (\A c \in Conn : st[c] # "gone") =>
              \A i \in 1..Len(file) : file[i].old
=============================================================================
