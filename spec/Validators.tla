----------------------------- MODULE Validators -----------------------------
(***************************************************************************)
(* C18: the name and path grammars of the DBus specification ("Valid Names",*)
(* "Valid Object Paths").  A string is a sequence of character classes:     *)
(*   "L" letter  "D" digit  "U" underscore  "." "-" ":" "/"                  *)
(*   "X" non-ASCII character   "O" any other ASCII character (space, ...)   *)
(* Each grammar is stated twice - declaratively over the elements of the    *)
(* string and as a left-to-right automaton - and TLC checks that the two    *)
(* agree on every generated string (GrammarEqAutomaton).                    *)
(* Generator machine: Append(c) makes every string up to MaxLen reachable;  *)
(* Init also contains the strings around the 255-byte limit.                *)
(***************************************************************************)
EXTENDS Naturals, Sequences, FiniteSets

CONSTANTS MaxLen, Classes

VARIABLES s, v      \* the string; v = verdict record (bound to the implementation's verdicts in traces)

vars == <<s, v>>

Word == {"L", "D", "U"}          \* [A-Za-z0-9_]
Start == {"L", "U"}              \* [A-Za-z_]

RECURSIVE SplitOn(_, _, _)
(* elements of s separated by class sep *)
SplitOn(str, sep, cur) ==
    IF str = <<>> THEN <<cur>>
    ELSE IF Head(str) = sep THEN <<cur>> \o SplitOn(Tail(str), sep, <<>>)
    ELSE SplitOn(Tail(str), sep, Append(cur, Head(str)))

Elems(str, sep) == SplitOn(str, sep, <<>>)
AllIn(e, set) == \A i \in 1..Len(e) : e[i] \in set

(* ---- declarative grammars ---- *)
IsPath(str) ==
    \/ str = <<"/">>
    \/ /\ Len(str) >= 2 /\ str[1] = "/"
       /\ LET es == Tail(Elems(str, "/")) IN        \* first element is the empty string before the leading "/"
            \A i \in 1..Len(es) : es[i] # <<>> /\ AllIn(es[i], Word)

NameElem(e, first, rest) == e # <<>> /\ e[1] \in first /\ AllIn(e, rest)

IsInterface(str) ==
    /\ Len(str) <= 255
    /\ LET es == Elems(str, ".") IN
         /\ Len(es) >= 2
         /\ \A i \in 1..Len(es) : NameElem(es[i], Start, Word)

IsError(str) == IsInterface(str)

IsMember(str) == Len(str) >= 1 /\ Len(str) <= 255 /\ NameElem(str, Start, Word)

BusWord == Word \cup {"-"}
IsBus(str) ==
    /\ Len(str) <= 255 /\ str # <<>>
    /\ IF str[1] = ":"
       THEN LET es == Elems(Tail(str), ".") IN
              Len(es) >= 2 /\ \A i \in 1..Len(es) : NameElem(es[i], BusWord, BusWord)
       ELSE LET es == Elems(str, ".") IN
              Len(es) >= 2 /\ \A i \in 1..Len(es) : NameElem(es[i], Start \cup {"-"}, BusWord)

Verdicts(str) == [path |-> IsPath(str), iface |-> IsInterface(str), err |-> IsError(str),
                  member |-> IsMember(str), bus |-> IsBus(str)]

(* ---- automata ---- *)
RECURSIVE Run(_, _, _)
Run(delta, q, str) == IF str = <<>> THEN q ELSE Run(delta, delta[q][Head(str)], Tail(str))

(* dotted names: states  "s0" start of first element, "in1" inside first element, "s" start of a
   later element, "in" inside a later element, "bad" *)
DottedDelta(first, rest) ==
    [q \in {"s0", "in1", "s", "in", "bad"} |->
       [c \in Classes |->
          CASE q = "s0" -> IF c \in first THEN "in1" ELSE "bad"
            [] q = "in1" -> IF c \in rest THEN "in1" ELSE IF c = "." THEN "s" ELSE "bad"
            [] q = "s" -> IF c \in first THEN "in" ELSE "bad"
            [] q = "in" -> IF c \in rest THEN "in" ELSE IF c = "." THEN "s" ELSE "bad"
            [] q = "bad" -> "bad"]]

AIface(str) == Len(str) <= 255 /\ Run(DottedDelta(Start, Word), "s0", str) = "in"
AMember(str) == Len(str) <= 255 /\ Run(DottedDelta(Start, Word), "s0", str) = "in1"
ABus(str) == /\ Len(str) <= 255
             /\ IF str # <<>> /\ str[1] = ":" THEN Run(DottedDelta(BusWord, BusWord), "s0", Tail(str)) = "in"
                ELSE Run(DottedDelta(Start \cup {"-"}, BusWord), "s0", str) = "in"
PathDelta ==
    [q \in {"0", "root", "slash", "el", "bad"} |->
       [c \in Classes |->
          CASE q = "0" -> IF c = "/" THEN "root" ELSE "bad"
            [] q = "root" -> IF c \in Word THEN "el" ELSE "bad"
            [] q = "slash" -> IF c \in Word THEN "el" ELSE "bad"
            [] q = "el" -> IF c \in Word THEN "el" ELSE IF c = "/" THEN "slash" ELSE "bad"
            [] q = "bad" -> "bad"]]
APath(str) == Run(PathDelta, "0", str) \in {"root", "el"}

AVerdicts(str) == [path |-> APath(str), iface |-> AIface(str), err |-> AIface(str),
                   member |-> AMember(str), bus |-> ABus(str)]

(* ---- generator ---- *)
Rep(c, n) == [i \in 1..n |-> c]
LongCases == UNION {{base \o Rep("L", n - Len(base)), base \o Rep("D", n - Len(base))} :
                       base \in {<<"L", ".", "L">>, <<":", "D", ".", "D">>, <<"L">>, <<"/", "L">>, <<"-", ".", "U">>},
                       n \in 253..258}

Init == s \in {<<>>} \cup LongCases /\ v = Verdicts(s)
Extend(c) == Len(s) < MaxLen /\ s' = Append(s, c) /\ v' = Verdicts(s')
Next == \E c \in Classes : Extend(c)
Spec == Init /\ [][Next]_vars

GrammarEqAutomaton == Verdicts(s) = AVerdicts(s)

(* verdicts recorded from the implementation for a string of classes *)
TraceInit == v = Verdicts(s)
=============================================================================
