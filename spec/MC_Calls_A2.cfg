SPECIFICATION Spec
CONSTANTS
  Call = {1, 2}
  Cfgs <- CfgsA
  Shapes <- ShapesA
  EShapes <- EShapesA
  Deviations = {}
INVARIANT TypeOK
INVARIANT AtMostOnce
INVARIANT ExactlyOnceWhenDone
INVARIANT RightOutcome
INVARIANT NoCross
INVARIANT NoLeak
INVARIANT LostSilent
CHECK_DEADLOCK FALSE
