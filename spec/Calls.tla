------------------------------ MODULE Calls ------------------------------
(***************************************************************************)
(* Pending-call table of one established client connection                 *)
(* (txdbus.client.DBusClientConnection: callRemote / callRemoteMessage /   *)
(* methodReturnReceived / errorReceived / _onMethodTimeout /               *)
(* connectionLost / _cbCvtReply).                                          *)
(*                                                                         *)
(* One action per callback.  The state is implementation shaped: `table`   *)
(* is the set of calls that have an entry in the pending table, `timer`    *)
(* the set of calls with an active delayed call on the reactor, `fired`    *)
(* the sequence of completions the application has observed per call.      *)
(* `first` is a ghost: the first completing event that happened to a call  *)
(* while it was outstanding; the property says the completion is the one   *)
(* determined by that event and nothing else.                              *)
(***************************************************************************)
EXTENDS Naturals, Sequences, FiniteSets

CONSTANTS
    Call,        \* call identifiers
    Cfgs,        \* set of call configurations [dl: BOOLEAN, ret: RetSig, nr: BOOLEAN]
    Shapes,      \* reply body shapes used by Return
    EShapes,     \* error body shapes used by ErrorReply
    Deviations   \* names of deviation actions enabled (normally {})

VARIABLES
    status,      \* [Call -> {"new","out","done"}]  application view: not issued / outstanding / completed
    cfg,         \* [Call -> Cfgs \cup {NoCfg}]
    table,       \* SUBSET Call : entries of the pending table
    timer,       \* SUBSET Call : active deadline timers
    fired,       \* [Call -> Seq(Outcome)] completions delivered to the application
    first,       \* [Call -> Event \cup {NoEv}] ghost
    conn         \* "up" | "lost"

vars == <<status, cfg, table, timer, fired, first, conn>>

NoCfg == [dl |-> FALSE, ret |-> "-", nr |-> FALSE]
NoEv  == [e |-> "none"]

AllShapes  == {"none", "one", "struct", "many", "oneint", "arrst"}
AllEShapes == {"nobody", "msg", "nonstr", "msg2"}
RetSigs    == {"nocheck", "", "s", "ss", "(ss)", "i", "a(ss)"}

Dev(n) == n \in Deviations

(* signature of the body carried by a METHOD_RETURN of the given shape *)
SigOf(sh) == CASE sh = "none"   -> ""
               [] sh = "one"    -> "s"
               [] sh = "struct" -> "(ss)"
               [] sh = "many"   -> "ss"
               [] sh = "oneint" -> "i"
               [] sh = "arrst"  -> "a(ss)"      \* one value, not a struct itself, with a struct inside

(* documented value convention *)
ValueKind(sh) == CASE sh = "none"   -> "None"
                   [] sh = "one"    -> "single"
                   [] sh = "oneint" -> "single"
                   [] sh = "arrst"  -> "single"
                   [] sh = "struct" -> "list"
                   [] sh = "many"   -> "list"

SigOk(ret, sh) ==
    IF ret = "nocheck" THEN TRUE
    ELSE IF ret = "" THEN SigOf(sh) = ""
    ELSE SigOf(sh) # "" /\ SigOf(sh) = ret

(* what a completion must be, given the call's configuration and the completing event *)
OutcomeOf(c, k, ev) ==
    CASE ev.e = "return" ->
            IF SigOk(k.ret, ev.sh)
            THEN [k |-> "value", kind |-> ValueKind(ev.sh), sh |-> ev.sh, from |-> c]
            ELSE [k |-> "sigerr", kind |-> "-", sh |-> "-", from |-> c]
      [] ev.e = "error"   -> [k |-> "remote", kind |-> "-", sh |-> ev.sh, from |-> c]
      [] ev.e = "expire"  -> [k |-> "timeout", kind |-> "-", sh |-> "-", from |-> c]
      [] ev.e = "lost"    -> [k |-> "lost", kind |-> "-", sh |-> "-", from |-> c]
      [] ev.e = "noreply" -> [k |-> "value", kind |-> "None", sh |-> "none", from |-> c]

Init ==
    /\ status = [c \in Call |-> "new"]
    /\ cfg = [c \in Call |-> NoCfg]
    /\ table = {}
    /\ timer = {}
    /\ fired = [c \in Call |-> <<>>]
    /\ first = [c \in Call |-> NoEv]
    /\ conn = "up"

(* callRemote(..., timeout = k.dl, returnSignature = k.ret, expectReply = ~k.nr) *)
Issue(c, k) ==
    /\ conn = "up"
    /\ status[c] = "new"
    /\ cfg' = [cfg EXCEPT ![c] = k]
    /\ IF k.nr
       THEN /\ status' = [status EXCEPT ![c] = "done"]
            /\ first' = [first EXCEPT ![c] = [e |-> "noreply"]]
            /\ fired' = [fired EXCEPT ![c] = <<OutcomeOf(c, k, [e |-> "noreply"])>>]
            /\ UNCHANGED <<table, timer>>
       ELSE /\ status' = [status EXCEPT ![c] = "out"]
            /\ table' = table \cup {c}
            /\ timer' = IF k.dl THEN timer \cup {c} ELSE timer
            /\ UNCHANGED <<first, fired>>
    /\ UNCHANGED conn

(* a completing event for an entry of the table: remove entry, cancel timer, fire once *)
Complete(c, ev) ==
    /\ table' = table \ {c}
    /\ timer' = timer \ {c}
    /\ status' = [status EXCEPT ![c] = "done"]
    /\ fired' = [fired EXCEPT ![c] = Append(@, OutcomeOf(c, cfg[c], ev))]
    /\ first' = [first EXCEPT ![c] = IF @ = NoEv THEN ev ELSE @]

(* METHOD_RETURN whose reply serial is the serial of call c (issued or not yet issued) *)
Return(c, sh) ==
    /\ conn = "up"
    /\ IF c \in table
       THEN Complete(c, [e |-> "return", sh |-> sh])
       ELSE UNCHANGED <<table, timer, status, fired, first>>      \* duplicate / unsolicited: ignored
    /\ UNCHANGED <<cfg, conn>>

ErrorReply(c, sh) ==
    /\ conn = "up"
    /\ IF c \in table
       THEN Complete(c, [e |-> "error", sh |-> sh])
       ELSE UNCHANGED <<table, timer, status, fired, first>>
    /\ UNCHANGED <<cfg, conn>>

(* the deadline of call c passes *)
Expire(c) ==
    /\ conn = "up"
    /\ c \in timer
    /\ IF Dev("TimeoutKeepsEntry")
       THEN /\ timer' = timer \ {c}
            /\ status' = [status EXCEPT ![c] = "done"]
            /\ fired' = [fired EXCEPT ![c] = Append(@, OutcomeOf(c, cfg[c], [e |-> "expire"]))]
            /\ first' = [first EXCEPT ![c] = IF @ = NoEv THEN [e |-> "expire"] ELSE @]
            /\ UNCHANGED table
       ELSE Complete(c, [e |-> "expire"])
    /\ UNCHANGED <<cfg, conn>>

(* a reply or error whose reply serial was never handed out, a signal, or an incoming call *)
Unsolicited(kind) ==
    /\ conn = "up"
    /\ UNCHANGED vars

(* the transport closes *)
Lose ==
    /\ conn = "up"
    /\ conn' = "lost"
    /\ table' = {}
    /\ timer' = IF Dev("LossKeepsTimers") THEN timer ELSE {}
    /\ status' = [c \in Call |-> IF c \in table THEN "done" ELSE status[c]]
    /\ fired' = [c \in Call |-> IF c \in table
                                 THEN Append(fired[c], OutcomeOf(c, cfg[c], [e |-> "lost"]))
                                 ELSE fired[c]]
    /\ first' = [c \in Call |-> IF c \in table /\ first[c] = NoEv THEN [e |-> "lost"] ELSE first[c]]
    /\ UNCHANGED cfg

(* after the loss the clock may run on: nothing may happen (harness advances the clock) *)
Quiet ==
    /\ conn = "lost"
    /\ UNCHANGED vars

Next ==
    \/ \E c \in Call, k \in Cfgs : Issue(c, k)
    \/ \E c \in Call, sh \in Shapes : Return(c, sh)
    \/ \E c \in Call, sh \in EShapes : ErrorReply(c, sh)
    \/ \E c \in Call : Expire(c)
    \/ \E kind \in {"return", "error", "signal", "call"} : Unsolicited(kind)
    \/ Lose
    \/ Quiet

Spec == Init /\ [][Next]_vars

-----------------------------------------------------------------------------
(* Properties (C08) *)

TypeOK ==
    /\ status \in [Call -> {"new", "out", "done"}]
    /\ table \subseteq Call /\ timer \subseteq Call
    /\ conn \in {"up", "lost"}

AtMostOnce == \A c \in Call : Len(fired[c]) <= 1

ExactlyOnceWhenDone == \A c \in Call : (status[c] = "done") <=> (Len(fired[c]) = 1)

(* the completion is the one determined by the first completing event *)
RightOutcome ==
    \A c \in Call :
        fired[c] = IF first[c] = NoEv THEN <<>> ELSE <<OutcomeOf(c, cfg[c], first[c])>>

NoCross == \A c \in Call : \A i \in 1..Len(fired[c]) : fired[c][i].from = c

(* after completion no timer or bookkeeping remains; only outstanding calls have any *)
NoLeak ==
    /\ table = {c \in Call : status[c] = "out"}
    /\ timer = {c \in Call : status[c] = "out" /\ cfg[c].dl}

LostSilent == conn = "lost" => table = {} /\ timer = {} /\ \A c \in Call : status[c] # "out"

=============================================================================
