------------------------------ MODULE MC_Wire ------------------------------
(***************************************************************************)
(* Generator machine over the codec input space: every reachable (initial) *)
(* state is one case <<type, value, starting offset, byte order>> together *)
(* with the reference encoding.  "One reachable state = one implementation *)
(* test" (C01, C02).  The same module validates cases recorded from the    *)
(* implementation (TraceInit).                                             *)
(***************************************************************************)
EXTENDS Wire

CONSTANTS Offs         \* starting offsets explored (subset of 0..7; split over parallel TLC runs)

VARIABLES c,           \* [T, v, off, le]
          out,         \* encoded bytes (including the padding after offset off)
          dec          \* [v, used] : decoded value and bytes consumed

vars == <<c, out, dec>>

BV(k) == CASE k = "y" -> {<<0>>, <<255>>}
           [] k = "b" -> {<<0, 0, 0, 0>>, <<1, 0, 0, 0>>}
           [] k = "n" -> {<<0, 128>>, <<255, 127>>, <<255, 255>>}
           [] k = "q" -> {<<255, 255>>, <<1, 2>>}
           [] k = "i" -> {<<0, 0, 0, 128>>, <<255, 255, 255, 127>>, <<1, 2, 3, 4>>}
           [] k = "u" -> {<<255, 255, 255, 255>>, <<1, 2, 3, 4>>}
           [] k = "x" -> {<<0, 0, 0, 0, 0, 0, 0, 128>>, <<255, 255, 255, 255, 255, 255, 255, 127>>, <<1, 2, 3, 4, 5, 6, 7, 8>>}
           [] k = "t" -> {<<255, 255, 255, 255, 255, 255, 255, 255>>, <<0, 0, 0, 0, 0, 0, 0, 0>>}
           [] k = "d" -> {<<0, 0, 0, 0, 0, 0, 240, 63>>, <<0, 0, 0, 0, 0, 0, 248, 127>>,
                          <<0, 0, 0, 0, 0, 0, 240, 255>>, <<0, 0, 0, 0, 0, 0, 0, 128>>}
           [] k = "s" -> {<<>>, <<97>>, <<195, 169, 226, 130, 172>>, <<240, 159, 152, 128, 98>>}
           [] k = "o" -> {<<47>>, <<47, 97, 47, 98, 48>>}
           [] k = "g" -> {<<>>, <<97, 123, 115, 118, 125>>, <<40, 105, 105, 41>>}

(* one or two values per code for nested positions *)
BS(k) == CASE k = "y" -> {<<7>>}
           [] k = "b" -> {<<1, 0, 0, 0>>}
           [] k = "n" -> {<<254, 255>>}
           [] k = "q" -> {<<1, 2>>}
           [] k = "i" -> {<<0, 0, 0, 128>>}
           [] k = "u" -> {<<1, 2, 3, 4>>}
           [] k = "x" -> {<<1, 2, 3, 4, 5, 6, 7, 8>>}
           [] k = "t" -> {<<255, 255, 255, 255, 255, 255, 255, 255>>}
           [] k = "d" -> {<<0, 0, 0, 0, 0, 0, 240, 63>>}
           [] k = "s" -> {<<>>, <<195, 169, 98>>}
           [] k = "o" -> {<<47, 97>>}
           [] k = "g" -> {<<105>>}

Codes == BasicCodes \ {"h"}
T0 == {<<k>> : k \in Codes} \cup {<<"v">>}
Rep == {<<"y">>, <<"q">>, <<"u">>, <<"x">>, <<"s">>, <<"g">>, <<"v">>}
KeyT == {<<"y">>, <<"s">>, <<"u">>}

T1 == {<<"a", t>> : t \in T0}
      \cup {<<"(", <<t>>>> : t \in Rep}
      \cup {<<"(", <<t1, t2>>>> : t1 \in Rep, t2 \in Rep}
      \cup {<<"a", <<"{", k, t>>>> : k \in KeyT, t \in Rep}

AX == <<"a", <<"x">>>>
AY == <<"a", <<"y">>>>
SYX == <<"(", <<<<"y">>, <<"x">>>>>>
DSV == <<"a", <<"{", <<"s">>, <<"v">>>>>>
T2 == { <<"a", AY>>, <<"a", AX>>, <<"a", <<"a", <<"s">>>>>>, <<"a", SYX>>, <<"a", <<"(", <<<<"s">>, <<"y">>>>>>>>,
        <<"a", <<"(", <<AX>>>>>>, <<"(", <<AY, <<"x">>>>>>, <<"(", <<<<"y">>, AX, <<"y">>>>>>,
        <<"(", <<SYX, <<"q">>>>>>, <<"(", <<<<"y">>, SYX>>>>, <<"(", <<<<"y">>, <<"(", <<<<"y">>>>>>, <<"y">>>>>>,
        <<"a", <<"v">>>>, DSV, <<"a", <<"{", <<"y">>, AX>>>>, <<"a", <<"{", <<"s">>, SYX>>>>,
        <<"a", <<"{", <<"u">>, DSV>>>>, <<"(", <<<<"v">>, <<"v">>>>>>, <<"(", <<<<"y">>, <<"v">>, <<"x">>>>>>,
        <<"a", <<"a", AX>>>>, <<"a", <<"{", <<"s">>, <<"a", <<"v">>>>>>>>,
        <<"a", <<"(", <<<<"y">>, DSV>>>>>>, <<"a", DSV>>, <<"(", <<DSV, <<"y">>>>>>,     \* dictionaries inside other containers
        <<"(", << <<"(", <<<<"y">>>>>>, <<"(", <<<<"q">>>>>> >>>>,                            \* sibling containers inside a struct
        <<"(", << <<"a", <<"(", <<<<"y">>, <<"y">>>>>>>>, <<"a", <<"(", <<<<"s">>>>>>>> >>>> }

(* types that may appear inside a variant, by nesting level of the variant *)
VT(lvl) == IF lvl = 0 THEN {<<"y">>, <<"u">>, <<"x">>, <<"d">>, <<"s">>, <<"g">>, <<"b">>, <<"o">>, AY, AX, SYX, DSV, <<"v">>,
                            <<"a", SYX>>, <<"(", <<AX>>>>}
           ELSE IF lvl = 1 THEN {<<"y">>, <<"x">>, <<"s">>, AX, <<"v">>}
           ELSE {<<"y">>, <<"x">>}

RECURSIVE Vals(_, _), Prod(_, _)
Vals(T, lvl) ==
    CASE T[1] \in Codes -> IF lvl = 0 THEN BV(T[1]) ELSE BS(T[1])
      [] T[1] = "v" -> UNION {{<<t, x>> : x \in Vals(t, lvl + 1)} : t \in VT(lvl)}
      [] T[1] = "a" ->
           LET E == Vals(T[2], lvl + 1)
               distinctKeys(x, y) == T[2][1] # "{" \/ x[1] # y[1]
           IN {<<>>} \cup {<<x>> : x \in E} \cup {pr \in E \X E : distinctKeys(pr[1], pr[2])}
      [] T[1] = "(" -> Prod(T[2], lvl + 1)
      [] T[1] = "seq" -> Prod(T[2], lvl)
      [] T[1] = "{" -> {<<k, w>> : k \in Vals(T[2], lvl + 1), w \in Vals(T[3], lvl + 1)}
Prod(Ts, lvl) ==
    IF Ts = <<>> THEN {<<>>}
    ELSE {<<h>> \o r : h \in Vals(Head(Ts), lvl), r \in Prod(Tail(Ts), lvl)}

(* top-level sequences of several complete types (no struct alignment) *)
TS == { <<"seq", <<<<"y">>, <<"x">>>>>>, <<"seq", <<<<"s">>, <<"y">>, <<"u">>>>>>, <<"seq", <<AX, <<"y">>>>>>,
        <<"seq", <<<<"y">>, <<"v">>, <<"x">>>>>>, <<"seq", <<DSV, <<"s">>>>>>, <<"seq", <<<<"y">>, AX, <<"q">>>>>>,
        <<"seq", <<<<"g">>, SYX>>>>, <<"seq", <<<<"a", <<"d">>>>, <<"u">>>>>> }

Types == T0 \cup T1 \cup T2 \cup TS

Cases == UNION {{[T |-> T, v |-> v, off |-> off, le |-> le] :
                     v \in Vals(T, 0), off \in Offs, le \in BOOLEAN} : T \in Types}

EncCase(k) == IF k.T[1] = "seq" THEN EncSeq(k.T[2], k.v, k.off, k.le) ELSE Enc(k.T, k.v, k.off, k.le)

RECURSIVE Nodes(_, _)
(* number of values in a value tree = number of decoding steps *)
Nodes(T, v) ==
    CASE T[1] \in Codes -> 1
      [] T[1] = "v" -> 1 + Nodes(v[1], v[2])
      [] T[1] = "a" -> LET RECURSIVE S(_) S(i) == IF i = 0 THEN 0 ELSE Nodes(T[2], v[i]) + S(i - 1) IN 1 + S(Len(v))
      [] T[1] = "(" -> LET RECURSIVE S(_) S(i) == IF i = 0 THEN 0 ELSE Nodes(T[2][i], v[i]) + S(i - 1) IN 1 + S(Len(v))
      [] T[1] = "{" -> 1 + Nodes(T[2], v[1]) + Nodes(T[3], v[2])
      [] T[1] = "seq" -> LET RECURSIVE S(_) S(i) == IF i = 0 THEN 0 ELSE Nodes(T[2][i], v[i]) + S(i - 1) IN S(Len(v))

DecCase(k, bytes) ==
    LET r == IF k.T[1] = "seq" THEN DecSeq(k.T[2], Zeros(k.off) \o bytes, k.off, k.le, 100000, FALSE, <<>>)
             ELSE Dec(k.T, Zeros(k.off) \o bytes, k.off, k.le, 100000, FALSE)
    IN IF r.ok THEN [v |-> r.v, used |-> r.p - k.off, n |-> r.n] ELSE [v |-> <<"error", r.why>>, used |-> 0, n |-> r.n]

Init == /\ c \in Cases
        /\ out = EncCase(c)
        /\ dec = DecCase(c, out)
Next == UNCHANGED vars
Spec == Init /\ [][Next]_vars

(* the reference encoder and decoder are mutually inverse and agree on the byte count (C01 at
   the level of the specification; makes the oracle self-checking) *)
RoundTrip == dec.v = c.v /\ dec.used = Len(out)
LinearSteps == dec.n = Nodes(c.T, c.v)
(* the value proper starts at its alignment and the padding before it is zero (C02) *)
Aligned == LET pad == PadLen(c.off, Align(IF c.T[1] = "seq" THEN c.T[2][1] ELSE c.T))
           IN /\ Len(out) >= pad
              /\ \A i \in 1..pad : out[i] = 0

(* validation of a case recorded from the implementation: c, out, dec are bound to what the
   implementation produced *)
TraceInitC02 == /\ out = EncCase(c)                      \* the implementation's bytes are the reference bytes
                /\ dec.v = c.v /\ dec.used = Len(out)     \* and they decode to the value
TraceInitC01 == dec.v = c.v /\ dec.used = Len(out)
=============================================================================
