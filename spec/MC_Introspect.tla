---- MODULE MC_Introspect ----
EXTENDS Introspect

cMNames == <<"a", "Ping">>
cINames == {"t.A", "t.AB"}

NS == {"a", "Ping"}
M(i, o) == [p |-> TRUE, ins |-> i, outs |-> o]
S(a) == [p |-> TRUE, args |-> a]
P(s, a, e) == [p |-> TRUE, sig |-> s, access |-> a, emits |-> e]
(* F0/F1/F2: member tables with no / one / two present members; no = the absent entry *)
F0(no) == [y \in NS |-> no]
F1(k, x, no) == [y \in NS |-> IF y = k THEN x ELSE no]
F2(k1, x1, k2, x2, no) == [y \in NS |-> IF y = k1 THEN x1 ELSE x2]
D(m, s, p) == [name |-> "-", methods |-> m, signals |-> s, props |-> p]

(* small pool for the history machine *)
PoolHist == { D(F1("a", M(<<"i">>, <<>>), NoM), F0(NoS), F0(NoP)),
              D(F2("a", M(<<"as", "(s(yy))">>, <<"a{sv}">>), "Ping", M(<<>>, <<"i", "i">>), NoM), F1("a", S(<<"s">>), NoS),
                F2("a", P("i", "write", "false"), "Ping", P("a{sv}", "readwrite", "invalidates"), NoP)) }

(* wide space for the single-shot round trip *)
Sigs == {<<>>, <<"i">>, <<"as", "(s(yy))">>, <<"aa{s(iv)}", "y", "v">>}
Meths == {F0(NoM)} \cup {F1("a", M(i, o), NoM) : i \in Sigs, o \in Sigs}
         \cup {F2("a", M(i, <<"s">>), "Ping", M(<<"y">>, o), NoM) : i \in Sigs, o \in Sigs}
Sgnls == {F0(NoS), F1("Ping", S(<<>>), NoS), F2("a", S(<<"i">>), "Ping", S(<<"as", "(s(yy))">>), NoS)}
Props == {F0(NoP)} \cup {F1("a", P(s, a, e), NoP) : s \in {"i", "a{sv}"}, a \in {"read", "write", "readwrite"}, e \in {"true", "false", "invalidates"}}
         \cup {F2("a", P("s", a, "true"), "Ping", P("(ii)", "read", e), NoP) : a \in {"read", "write", "readwrite"}, e \in {"true", "false", "invalidates"}}
PoolWide == {D(m, s, p) : m \in Meths, s \in Sgnls, p \in Props}

InitWide == \E d \in PoolWide, reg \in BOOLEAN :
               /\ objs = << [d EXCEPT !.name = "t.A"] @@ [declared |-> TRUE] >>
               /\ known = IF reg THEN [n \in {"t.A"} |-> 1] ELSE <<>>
               /\ result = <<>>
NextWide == \E rep \in BOOLEAN : ParseXml(<<1>>, rep)
SpecWide == InitWide /\ [][NextWide]_vars
====
