SPECIFICATION SpecWide
CONSTANTS
  MNames <- cMNames
  INames <- cINames
  DefPool <- PoolHist
  MaxObjs = 2
INVARIANT KnownPointsToNamesake
PROPERTY RoundTripStep
CHECK_DEADLOCK FALSE
