SPECIFICATION Spec
CONSTANTS
  Mechs = {"M1", "M2"}
  Real = FALSE
  Creds = FALSE
  MaxRejects = 5
INVARIANT TypeOK
INVARIANT Safety
INVARIANT AcceptedMeansWaitBegin
INVARIANT Limit
INVARIANT CookieOnce
PROPERTY AuthedOnlyByBegin
CHECK_DEADLOCK FALSE
