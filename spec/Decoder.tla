------------------------------ MODULE Decoder ------------------------------
(***************************************************************************)
(* C05: decoding hostile bytes takes work proportional to their length.    *)
(*                                                                         *)
(* Generator machine: the state is a (possibly hostile) type, a byte order *)
(* and a byte string grown one byte at a time over a small alphabet, so    *)
(* that every byte string up to MaxLen is a reachable state.  Each state   *)
(* is decoded with the step-counting reference decoder of Wire.tla.        *)
(* ZeroOK = TRUE is the deviation "an array element may occupy no bytes"   *)
(* (the design txdbus had): TLC then reports Bounded violated.             *)
(***************************************************************************)
EXTENDS Wire

CONSTANTS MaxLen, Alphabet, ZeroOK, Fuel

VARIABLES T, le, d

vars == <<T, le, d>>

ES == <<"(", <<>>>>                        \* the (invalid) empty struct: occupies no bytes
Y == <<"y">>
HTypes == { <<"a", ES>>, <<"a", <<"(", <<ES>>>>>>, <<"a", <<"a", ES>>>>, <<"a", <<"(", <<ES, ES>>>>>>,
            <<"a", Y>>, <<"a", <<"s">>>>, <<"a", <<"v">>>>, <<"v">>, <<"a", <<"(", <<Y, Y>>>>>>,
            <<"a", <<"a", Y>>>>, <<"a", <<"{", Y, <<"s">>>>>>, <<"(", <<<<"a", Y>>, <<"v">>>>>>,
            <<"a", <<"x">>>>, <<"a", <<"(", <<<<"a", ES>>>>>>>> }

Init == T \in HTypes /\ le \in BOOLEAN /\ d = <<>>
Grow(b) == Len(d) < MaxLen /\ d' = Append(d, b) /\ UNCHANGED <<T, le>>
Next == \E b \in Alphabet : Grow(b)
Spec == Init /\ [][Next]_vars

Result == Dec(T, d, 0, le, Fuel, ZeroOK)

(* work is linear: at most one step per input byte plus one per signature character *)
StepBound(nbytes, nsig) == nbytes + nsig + 1
Bounded == LET r == Result IN (r.ok \/ r.why # "fuel") /\ r.n <= StepBound(Len(d), Len(Sig(T)))

(* a successful decode never reads past the data and every array element advanced *)
InData == LET r == Result IN r.ok => r.p <= Len(d)

(* The implementation counts interpreter call events, not abstract steps: each abstract step costs
   at most CallsPerStep calls.  A recorded decode [len, siglen, calls, outcome] is acceptable iff *)
CallsPerStep == 40
CallSlack == 400
(* Work done inside a single C call (a regular expression match, a C loop) is invisible to the call
   counter; it is recorded as CPU milliseconds of a CPU-limited child process (outcome "killed" when
   the limit struck).  The allowance is four orders of magnitude above what a linear decoder needs. *)
(* "never builds data unrelated in size to the input": peak allocation while decoding (tracemalloc, same child) *)
MemKbPerStep == 4
MemSlackKb == 4096
CpuMsPerStep == 5
CpuSlackMs == 1000
AcceptableWork(rec) ==
    /\ rec.outcome \in {"value", "exception"}
    /\ rec.calls <= CallsPerStep * StepBound(rec.len, rec.siglen) + CallSlack
    /\ rec.cpu_ms <= CpuMsPerStep * StepBound(rec.len, rec.siglen) + CpuSlackMs
    /\ rec.mem_kb <= MemKbPerStep * StepBound(rec.len, rec.siglen) + MemSlackKb

(* work grows with the length: a well-formed message 8 times as long as another of the same shape takes at most 3 times
   the proportional CPU time (plus 300 ms for the noise of short measurements); a quadratic decoder takes 8 times it *)
AcceptableScaling(rec) ==
    /\ rec.outcome = "value"
    /\ rec.big_ms * rec.small_len <= 3 * (rec.small_ms + 100) * rec.big_len

(* ... and so does the copying done on the way: bytes produced by slicing the input (measured with a counting bytes
   type; a linear decoder copies each byte a few times, at most once per nesting level) *)
AcceptableCopy(rec) == rec.outcome = "value" /\ rec.copied <= 16 * rec.len + 4096

(* "an exception costs the peer only its own connection": decoding is a function of the bytes alone.  A
   recorded pair [before, after] = what a valid message decoded to before and after a run of hostile inputs
   (on other connections of the same process) is acceptable iff nothing changed. *)
AcceptableIsolation(rec) == rec.before.outcome = "value" /\ rec.after = rec.before
=============================================================================
