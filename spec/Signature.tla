----------------------------- MODULE Signature -----------------------------
(***************************************************************************)
(* C19.  Part 1: splitting a signature into its top-level complete types.  *)
(* Generator: every sequence of type trees whose signature has at most     *)
(* MaxSig characters (over a reduced set of basic codes) is an initial     *)
(* state; the decomposition is known by construction (the trees) and is    *)
(* cross-checked against the independent recursive-descent parser ParseSig *)
(* of Wire.tla.                                                            *)
(* Part 2: the signature inferred for a Python value sent as a variant.    *)
(* A value shape is a tree  <<"bool">> <<"int", range>> <<"float">>        *)
(* <<"str">> <<"bytes">> <<"wrap", code>> <<"list", shapes>>               *)
(* <<"tuple", shapes>> <<"dict", <<<<key, value>>, ...>>>>.                *)
(***************************************************************************)
EXTENDS Wire

CONSTANTS MaxSig,      \* part 1: maximal signature length
          Depth        \* part 2: container nesting depth of the shapes

VARIABLES mode,        \* "split" | "infer"
          ts,          \* split: the sequence of type trees
          sigv,        \* split: the signature (characters); infer: the inferred signature reported by the implementation / model
          parts,       \* split: the pieces (sequences of characters)
          shape,       \* infer: the value shape
          rt           \* infer: did the value round-trip under the inferred signature (implementation) / TRUE (model)

vars == <<mode, ts, sigv, parts, shape, rt>>

(* ---------------- part 1 ---------------- *)
B1 == {<<"y">>, <<"s">>, <<"v">>}
K1 == {<<"y">>, <<"s">>}

RECURSIVE TypesOfLen(_), SeqsOfLen(_)
TypesOfLen(n) ==
    IF n <= 0 THEN {}
    ELSE (IF n = 1 THEN B1 ELSE {})
         \cup {<<"a", t>> : t \in TypesOfLen(n - 1)}
         \cup {<<"(", q>> : q \in SeqsOfLen(n - 2) \ {<<>>}}
         \cup (IF n >= 5 THEN {<<"a", <<"{", k, w>>>> : k \in K1, w \in TypesOfLen(n - 4)} ELSE {})
SeqsOfLen(n) ==
    IF n < 0 THEN {}
    ELSE IF n = 0 THEN {<<>>}
    ELSE UNION {{<<t>> \o r : t \in TypesOfLen(k), r \in SeqsOfLen(n - k)} : k \in 1..n}

Pieces(q) == [i \in 1..Len(q) |-> Sig(q[i])]

(* ---------------- part 2 ---------------- *)
WrapCodes == {"y", "b", "n", "q", "i", "u", "x", "t", "g", "o"}
Base0 == {<<"bool">>, <<"int", "i32">>, <<"int", "i64">>, <<"int", "u64">>, <<"float">>, <<"str">>, <<"bytes">>}
         \cup {<<"wrap", k>> : k \in WrapCodes}
BaseN == {<<"bool">>, <<"int", "i32">>, <<"int", "i64">>, <<"str">>, <<"wrap", "y">>}
KeyShapes == {<<"str">>, <<"int", "i32">>}

Upto2(S) == {<<>>} \cup {<<x>> : x \in S} \cup (S \X S)
Cont(S, K) == {<<"list", e>> : e \in Upto2(S)}
              \cup {<<"tuple", e>> : e \in Upto2(S) \ {<<>>}}
              \cup {<<"dict", e>> : e \in {<<>>} \cup {<< <<k, w>> >> : k \in K, w \in S}
                                              \cup {<< <<k, w1>>, <<k, w2>> >> : k \in K, w1 \in S, w2 \in S}}

ET == <<"tuple", <<>>>>          \* the empty tuple: no DBus representation (structs have at least one field)
Shapes == {ET, <<"list", <<ET>>>>, <<"tuple", <<<<"str">>, ET>>>>, <<"dict", << <<<<"str">>, ET>> >>>>} \cup
          IF Depth = 1 THEN Base0 \cup Cont(Base0, KeyShapes)
          ELSE Base0 \cup Cont(Base0, KeyShapes) \cup Cont(BaseN \cup Cont(BaseN, KeyShapes), KeyShapes)

(* Python class of a shape (what isinstance / type() see) *)
PyClass(sh) == IF sh[1] = "wrap" THEN <<"wrap", sh[2]>> ELSE <<"cls", sh[1]>>

RECURSIVE Infer(_)
(* the documented, first-element based inference: returns a signature (characters) *)
IsInst(x, first) ==      \* isinstance(x, type(first))
    \/ PyClass(x) = PyClass(first)
    \/ first[1] = "int" /\ (x[1] = "bool" \/ (x[1] = "wrap" /\ x[2] \notin {"g", "o"}))
    \/ first[1] = "str" /\ x[1] = "wrap" /\ x[2] \in {"g", "o"}
Infer(sh) ==
    CASE sh[1] = "bool" -> <<"b">>
      [] sh[1] = "int" -> IF sh[2] = "i32" THEN <<"i">> ELSE IF sh[2] = "i64" THEN <<"x">> ELSE <<"t">>
      [] sh[1] = "float" -> <<"d">>
      [] sh[1] = "str" -> <<"s">>
      [] sh[1] = "bytes" -> <<"a", "y">>
      [] sh[1] = "wrap" -> <<sh[2]>>
      [] sh[1] = "list" ->
           IF sh[2] = <<>> THEN <<"a", "v">>
           ELSE IF \A i \in 1..Len(sh[2]) : IsInst(sh[2][i], sh[2][1]) THEN <<"a">> \o Infer(sh[2][1])
           ELSE <<"a", "v">>
      [] sh[1] = "tuple" ->
           LET RECURSIVE Cat(_) Cat(i) == IF i > Len(sh[2]) THEN <<>> ELSE Infer(sh[2][i]) \o Cat(i + 1)
           IN <<"(">> \o Cat(1) \o <<")">>
      [] sh[1] = "dict" ->
           IF sh[2] = <<>> THEN <<"a", "{", "s", "v", "}">>
           ELSE LET k == sh[2][Len(sh[2])][1]
                    first == sh[2][1][2]
                IN IF \A i \in 1..Len(sh[2]) : IsInst(sh[2][i][2], first)
                   THEN <<"a", "{">> \o Infer(k) \o Infer(first) \o <<"}">>
                   ELSE <<"a", "{">> \o Infer(k) \o <<"v", "}">>

RECURSIVE InClaim(_)
(* the quantifier's side condition: no container holds two elements that share a Python class
   but not a DBus type *)
Compatible(x, y) == PyClass(x) # PyClass(y) \/ Infer(x) = Infer(y)
InClaim(sh) ==
    CASE sh[1] \in {"list", "tuple"} ->
           /\ \A i \in 1..Len(sh[2]) : InClaim(sh[2][i])
           /\ sh[1] = "tuple" \/ \A i, j \in 1..Len(sh[2]) : Compatible(sh[2][i], sh[2][j])
      [] sh[1] = "dict" ->
           /\ \A i \in 1..Len(sh[2]) : InClaim(sh[2][i][2])
           /\ \A i, j \in 1..Len(sh[2]) : Compatible(sh[2][i][2], sh[2][j][2]) /\ Infer(sh[2][i][1]) = Infer(sh[2][j][1])
      [] OTHER -> TRUE

RECURSIVE Fits(_, _)
(* can a value of this shape travel under type T at all? *)
IntCodes(r) == IF r = "i32" THEN {"y", "n", "q", "i", "u", "x", "t", "b"} ELSE IF r = "i64" THEN {"x", "t"} ELSE {"t"}
Fits(sh, T) ==
    CASE T[1] = "v" -> TRUE
      [] sh[1] = "bool" -> T[1] \in {"b", "y", "n", "q", "i", "u", "x", "t"}
      [] sh[1] = "int" -> T[1] \in IntCodes(sh[2])
      [] sh[1] = "float" -> T[1] = "d"
      [] sh[1] = "str" -> T[1] \in {"s"}
      [] sh[1] = "bytes" -> T = <<"a", <<"y">>>>
      [] sh[1] = "wrap" -> IF sh[2] \in {"g", "o"} THEN T[1] \in {sh[2], "s"} ELSE T[1] \in {"y", "b", "n", "q", "i", "u", "x", "t"}
      [] sh[1] = "list" -> T[1] = "a" /\ T[2][1] # "{" /\ \A i \in 1..Len(sh[2]) : Fits(sh[2][i], T[2])
      [] sh[1] = "tuple" -> T[1] = "(" /\ Len(T[2]) = Len(sh[2]) /\ \A i \in 1..Len(sh[2]) : Fits(sh[2][i], T[2][i])
      [] sh[1] = "dict" -> T[1] = "a" /\ T[2][1] = "{" /\
                           \A i \in 1..Len(sh[2]) : Fits(sh[2][i][1], T[2][2]) /\ Fits(sh[2][i][2], T[2][3])

RECURSIVE Representable(_)
Representable(sh) ==
    CASE sh[1] \in {"list", "tuple"} -> (sh[1] = "list" \/ sh[2] # <<>>) /\ \A i \in 1..Len(sh[2]) : Representable(sh[2][i])
      [] sh[1] = "dict" -> \A i \in 1..Len(sh[2]) : Representable(sh[2][i][2])
      [] OTHER -> TRUE

(* what the property demands of an inferred signature g (characters) for shape sh, given whether
   the value round-tripped under it *)
InferenceOK(sh, g, roundtrip) ==
    LET p == ParseSig(g) IN
    /\ p.ok /\ Len(p.Ts) = 1                                   \* a single complete type
    /\ (sh[1] = "wrap" => g = <<sh[2]>>)                        \* wrappers select exactly their type
    /\ (InClaim(sh) /\ Representable(sh) => Fits(sh, p.Ts[1]) /\ roundtrip)   \* encodes and decodes back equal

Init == \/ /\ mode = "split"
           /\ ts \in UNION {SeqsOfLen(n) : n \in 0..MaxSig}
           /\ sigv = SigSeq(ts) /\ parts = Pieces(ts)
           /\ shape = <<>> /\ rt = TRUE
        \/ /\ mode = "infer"
           /\ shape \in Shapes
           /\ sigv = (IF Representable(shape) THEN Infer(shape) ELSE <<"!">>) /\ rt = TRUE
           /\ ts = <<>> /\ parts = <<>>
Next == UNCHANGED vars
Spec == Init /\ [][Next]_vars

(* part 1 properties, and cross-check of the generator against the independent parser *)
Concat == mode = "split" =>
            LET RECURSIVE Cat(_) Cat(i) == IF i > Len(parts) THEN <<>> ELSE parts[i] \o Cat(i + 1) IN Cat(1) = sigv
EachComplete == mode = "split" =>
            \A i \in 1..Len(parts) : LET p == ParseSig(parts[i]) IN p.ok /\ Len(p.Ts) = 1
ParserAgrees == mode = "split" => LET p == ParseSig(sigv) IN p.ok /\ p.Ts = ts
(* the documented inference satisfies the property on the modelled shapes (round trip assumed) *)
DocumentedInferenceOK == mode = "infer" /\ Representable(shape) => InferenceOK(shape, sigv, TRUE)

(* recorded from the implementation *)
TraceSplit == LET p == ParseSig(sigv) IN p.ok /\ parts = Pieces(p.Ts)
(* sigv = <<"!">> : the implementation refused to infer a signature (marshalling error) *)
TraceInfer == IF sigv = <<"!">> THEN ~Representable(shape) ELSE InferenceOK(shape, sigv, rt)
=============================================================================
