-------------------------------- MODULE Wire --------------------------------
(***************************************************************************)
(* The DBus wire format, written from the DBus specification ("Marshaling  *)
(* (Wire Format)") and independent of txdbus.marshal.                      *)
(*                                                                         *)
(* A type is a tree:   <<c>> for a basic code c, <<"v">>, <<"a", T>>,       *)
(* <<"(", <<T1, ..., Tn>>>>, <<"{", K, V>> (dict entry, only inside "a").   *)
(* A signature is a sequence of one-character strings.                     *)
(* A value is:  a tuple of bytes, little-endian limbs, for fixed-width      *)
(* scalars (so TLC never needs integers wider than 31 bits and no floats); *)
(* a tuple of bytes (already UTF-8 / ASCII) for s, o, g;  a tuple of        *)
(* values for arrays and structs;  <<k, v>> for a dict entry;               *)
(* <<T, v>> for a variant.                                                  *)
(*                                                                         *)
(* Enc is the reference encoder, Dec the reference decoder with an explicit *)
(* step count and fuel (used by Decoder.tla for the bounded-work property). *)
(***************************************************************************)
EXTENDS Naturals, Sequences, FiniteSets, TLC

Fixed == {"y", "b", "n", "q", "i", "u", "x", "t", "d", "h"}
StringLike == {"s", "o"}
BasicCodes == Fixed \cup StringLike \cup {"g"}
AllCodes == BasicCodes \cup {"a", "(", ")", "{", "}", "v"}

Size(c) == CASE c = "y" -> 1
             [] c \in {"n", "q"} -> 2
             [] c \in {"b", "i", "u", "h"} -> 4
             [] c \in {"x", "t", "d"} -> 8

AlignC(c) == CASE c \in {"y", "g", "v"} -> 1
               [] c \in {"n", "q"} -> 2
               [] c \in {"b", "i", "u", "h", "s", "o", "a"} -> 4
               [] c \in {"x", "t", "d", "(", "{"} -> 8

Align(T) == AlignC(T[1])

PadLen(pos, a) == (a - (pos % a)) % a
Zeros(n) == [i \in 1..n |-> 0]
Rev(s) == [i \in 1..Len(s) |-> s[Len(s) + 1 - i]]

U32(n, le) ==
    LET b == <<n % 256, (n \div 256) % 256, (n \div 65536) % 256, (n \div 16777216) % 256>>
    IN IF le THEN b ELSE Rev(b)

Ascii == "y" :> 121 @@ "b" :> 98 @@ "n" :> 110 @@ "q" :> 113 @@ "i" :> 105 @@ "u" :> 117 @@
         "x" :> 120 @@ "t" :> 116 @@ "d" :> 100 @@ "h" :> 104 @@ "s" :> 115 @@ "o" :> 111 @@
         "g" :> 103 @@ "a" :> 97 @@ "(" :> 40 @@ ")" :> 41 @@ "{" :> 123 @@ "}" :> 125 @@ "v" :> 118

CharOf(code) == IF \E c \in DOMAIN Ascii : Ascii[c] = code
                THEN CHOOSE c \in DOMAIN Ascii : Ascii[c] = code
                ELSE "?"

RECURSIVE Sig(_), SigSeq(_)
(* signature (sequence of characters) of a type *)
Sig(T) == CASE T[1] = "a" -> <<"a">> \o Sig(T[2])
            [] T[1] = "(" -> <<"(">> \o SigSeq(T[2]) \o <<")">>
            [] T[1] = "{" -> <<"{">> \o Sig(T[2]) \o Sig(T[3]) \o <<"}">>
            [] OTHER -> <<T[1]>>
SigSeq(Ts) == IF Ts = <<>> THEN <<>> ELSE Sig(Head(Ts)) \o SigSeq(Tail(Ts))

SigBytes(T) == LET s == Sig(T) IN [i \in 1..Len(s) |-> Ascii[s[i]]]

-----------------------------------------------------------------------------
(* Encoder.  Enc returns the bytes of v INCLUDING the padding that brings  *)
(* position pos (counted from the start of the message) to T's alignment.  *)

RECURSIVE Enc(_, _, _, _), EncSeq(_, _, _, _), EncElems(_, _, _, _)

Enc(T, v, pos, le) ==
    LET pad == PadLen(pos, Align(T))
        p == pos + pad
        c == T[1]
        body ==
          CASE c \in Fixed -> IF le THEN v ELSE Rev(v)
            [] c \in StringLike -> U32(Len(v), le) \o v \o <<0>>
            [] c = "g" -> <<Len(v)>> \o v \o <<0>>
            [] c = "a" ->
                 LET ep == p + 4
                     epad == PadLen(ep, Align(T[2]))
                     els == EncElems(T[2], v, ep + epad, le)
                 IN U32(Len(els), le) \o Zeros(epad) \o els      \* length excludes the first padding
            [] c = "(" -> EncSeq(T[2], v, p, le)
            [] c = "{" -> EncSeq(<<T[2], T[3]>>, v, p, le)
            [] c = "v" ->
                 LET sg == SigBytes(v[1])
                     hd == <<Len(sg)>> \o sg \o <<0>>
                 IN hd \o Enc(v[1], v[2], p + Len(hd), le)
    IN Zeros(pad) \o body

EncSeq(Ts, vs, pos, le) ==
    IF Ts = <<>> THEN <<>>
    ELSE LET h == Enc(Head(Ts), Head(vs), pos, le)
         IN h \o EncSeq(Tail(Ts), Tail(vs), pos + Len(h), le)

EncElems(E, vs, pos, le) ==
    IF vs = <<>> THEN <<>>
    ELSE LET h == Enc(E, Head(vs), pos, le)
         IN h \o EncElems(E, Tail(vs), pos + Len(h), le)

-----------------------------------------------------------------------------
(* Signature parsing: characters -> types (structural recursion on the      *)
(* grammar).  ParseOne(s, i) = [ok, T, i'] : one complete type starting at  *)
(* index i.  An empty struct and a dict entry outside an array or with a    *)
(* non-basic key are not complete types.                                    *)

RECURSIVE ParseOne(_, _, _), ParseMany(_, _, _, _)

Bad == [ok |-> FALSE, T |-> <<>>, i |-> 0]

ParseOne(s, i, depth) ==
    IF i > Len(s) \/ depth > 64 THEN Bad
    ELSE LET c == s[i] IN
      CASE c \in BasicCodes \cup {"v"} -> [ok |-> TRUE, T |-> <<c>>, i |-> i + 1]
        [] c = "a" ->
             IF i + 1 <= Len(s) /\ s[i + 1] = "{"
             THEN LET k == ParseOne(s, i + 2, depth + 1) IN
                  IF ~k.ok \/ k.T[1] \notin BasicCodes THEN Bad
                  ELSE LET w == ParseOne(s, k.i, depth + 1) IN
                       IF ~w.ok \/ w.i > Len(s) \/ s[w.i] # "}" THEN Bad
                       ELSE [ok |-> TRUE, T |-> <<"a", <<"{", k.T, w.T>>>>, i |-> w.i + 1]
             ELSE LET e == ParseOne(s, i + 1, depth + 1) IN
                  IF ~e.ok THEN Bad ELSE [ok |-> TRUE, T |-> <<"a", e.T>>, i |-> e.i]
        [] c = "(" ->
             LET m == ParseMany(s, i + 1, <<>>, depth + 1) IN
             IF ~m.ok \/ m.T = <<>> THEN Bad ELSE [ok |-> TRUE, T |-> <<"(", m.T>>, i |-> m.i]
        [] OTHER -> Bad

(* fields of a struct up to the closing parenthesis *)
ParseMany(s, i, acc, depth) ==
    IF i > Len(s) THEN Bad
    ELSE IF s[i] = ")" THEN [ok |-> TRUE, T |-> acc, i |-> i + 1]
    ELSE LET f == ParseOne(s, i, depth) IN
         IF ~f.ok THEN Bad ELSE ParseMany(s, f.i, Append(acc, f.T), depth)

RECURSIVE ParseAll(_, _, _)
(* the top-level complete types of a signature: [ok, Ts] *)
ParseAll(s, i, acc) ==
    IF i > Len(s) THEN [ok |-> TRUE, Ts |-> acc]
    ELSE LET f == ParseOne(s, i, 0) IN
         IF ~f.ok THEN [ok |-> FALSE, Ts |-> <<>>] ELSE ParseAll(s, f.i, Append(acc, f.T))

ParseSig(s) == ParseAll(s, 1, <<>>)

-----------------------------------------------------------------------------
(* Decoder with step counting.  A result is                                 *)
(*   [ok |-> TRUE,  v |-> value, p |-> next position, n |-> steps]           *)
(*   [ok |-> FALSE, why |-> reason,                  n |-> steps]            *)
(* One step = one value decoded (one Dec application).  `fuel` bounds the    *)
(* recursion so that TLC terminates even on a design that does not.         *)
(* ZeroOK = TRUE models a decoder that lets an array element consume no     *)
(* bytes (the defect repaired in txdbus).                                   *)

Err(why, n) == [ok |-> FALSE, why |-> why, n |-> n]

(* little-endian limbs -> number; "Huge" when it does not fit 27 bits (bigger than any message) *)
Num(b) == IF Len(b) = 1 THEN b[1]
          ELSE IF Len(b) = 4 /\ b[4] >= 8 THEN 134217728
          ELSE b[1] + 256 * b[2] + 65536 * b[3] + 16777216 * b[4]

Bytes(d, p, n) == [i \in 1..n |-> d[p + i]]        \* n bytes following position p (0-based p)

RECURSIVE Dec(_, _, _, _, _, _), DecSeq(_, _, _, _, _, _, _), DecElems(_, _, _, _, _, _, _, _)

Dec(T, d, pos, le, fuel, ZeroOK) ==
    IF fuel = 0 THEN Err("fuel", 0)
    ELSE
    LET p == pos + PadLen(pos, Align(T))
        c == T[1]
        L == Len(d)
    IN
    CASE c \in Fixed ->
           IF p + Size(c) > L THEN Err("short", 1)
           ELSE [ok |-> TRUE, v |-> IF le THEN Bytes(d, p, Size(c)) ELSE Rev(Bytes(d, p, Size(c))),
                 p |-> p + Size(c), n |-> 1]
      [] c \in StringLike ->
           IF p + 4 > L THEN Err("short", 1)
           ELSE LET n4 == Bytes(d, p, 4)
                    len == Num(IF le THEN n4 ELSE Rev(n4))
                IN IF p + 4 + len + 1 > L THEN Err("short", 1)
                   ELSE [ok |-> TRUE, v |-> Bytes(d, p + 4, len), p |-> p + 4 + len + 1, n |-> 1]
      [] c = "g" ->
           IF p + 1 > L THEN Err("short", 1)
           ELSE LET len == d[p + 1]
                IN IF p + 1 + len + 1 > L THEN Err("short", 1)
                   ELSE [ok |-> TRUE, v |-> Bytes(d, p + 1, len), p |-> p + 1 + len + 1, n |-> 1]
      [] c = "a" ->
           IF p + 4 > L THEN Err("short", 1)
           ELSE LET n4 == Bytes(d, p, 4)
                    len == Num(IF le THEN n4 ELSE Rev(n4))
                    ep == p + 4 + PadLen(p + 4, Align(T[2]))
                    end == ep + len
                IN IF end > L THEN Err("short", 1)
                   ELSE LET r == DecElems(T[2], d, ep, end, le, fuel - 1, ZeroOK, <<>>)
                        IN IF r.ok THEN [r EXCEPT !.n = r.n + 1] ELSE Err(r.why, r.n + 1)
      [] c = "(" ->
           LET r == DecSeq(T[2], d, p, le, fuel - 1, ZeroOK, <<>>)
           IN IF r.ok THEN [r EXCEPT !.n = r.n + 1] ELSE Err(r.why, r.n + 1)
      [] c = "{" ->
           LET r == DecSeq(<<T[2], T[3]>>, d, p, le, fuel - 1, ZeroOK, <<>>)
           IN IF r.ok THEN [r EXCEPT !.n = r.n + 1] ELSE Err(r.why, r.n + 1)
      [] c = "v" ->
           IF p + 1 > L THEN Err("short", 1)
           ELSE LET len == d[p + 1]
                IN IF p + 1 + len + 1 > L THEN Err("short", 1)
                   ELSE LET sb == Bytes(d, p + 1, len)
                            sg == [i \in 1..len |-> CharOf(sb[i])]
                            ps == ParseSig(sg)
                        IN IF ~ps.ok \/ Len(ps.Ts) # 1 THEN Err("variant-signature", 1)
                           ELSE LET r == Dec(ps.Ts[1], d, p + 1 + len + 1, le, fuel - 1, ZeroOK)
                                IN IF r.ok THEN [ok |-> TRUE, v |-> <<ps.Ts[1], r.v>>, p |-> r.p, n |-> r.n + 1]
                                   ELSE Err(r.why, r.n + 1)

DecSeq(Ts, d, pos, le, fuel, ZeroOK, acc) ==
    IF Ts = <<>> THEN [ok |-> TRUE, v |-> acc, p |-> pos, n |-> 0]
    ELSE LET h == Dec(Head(Ts), d, pos, le, fuel, ZeroOK) IN
         IF ~h.ok THEN h
         ELSE LET r == DecSeq(Tail(Ts), d, h.p, le, fuel - h.n, ZeroOK, Append(acc, h.v))
              IN IF r.ok THEN [r EXCEPT !.n = r.n + h.n] ELSE Err(r.why, r.n + h.n)

DecElems(E, d, pos, end, le, fuel, ZeroOK, acc) ==
    IF pos >= end THEN (IF pos = end THEN [ok |-> TRUE, v |-> acc, p |-> pos, n |-> 0]
                        ELSE Err("array-overrun", 0))
    ELSE LET h == Dec(E, d, pos, le, fuel, ZeroOK) IN
         IF ~h.ok THEN h
         ELSE IF h.p = pos /\ ~ZeroOK THEN Err("zero-size-element", h.n)
         ELSE LET r == DecElems(E, d, h.p, end, le, fuel - h.n, ZeroOK, Append(acc, h.v))
              IN IF r.ok THEN [r EXCEPT !.n = r.n + h.n] ELSE Err(r.why, r.n + h.n)

=============================================================================
