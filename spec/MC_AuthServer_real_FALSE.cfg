SPECIFICATION Spec
CONSTANTS
  Mechs = {"EXTERNAL", "DBUS_COOKIE_SHA1", "ANONYMOUS"}
  Real = TRUE
  Creds = FALSE
  MaxRejects = 5
INVARIANT TypeOK
INVARIANT Safety
INVARIANT AcceptedMeansWaitBegin
INVARIANT Limit
INVARIANT CookieOnce
PROPERTY AuthedOnlyByBegin
PROPERTY WrongNeverAccepted
CHECK_DEADLOCK FALSE
