SPECIFICATION Spec
CONSTANTS
  Paths <- cPaths
  Classes = {"K1", "K2"}
INVARIANT ViewIsFunctionOfExports
INVARIANT IntrospectableIffAncestor
INVARIANT ManagedAreBeneath
CHECK_DEADLOCK FALSE
