------------------------------ MODULE Framing ------------------------------
(***************************************************************************)
(* Receiving side of one connection:                                       *)
(* txdbus.protocol.BasicDBusProtocol.dataReceived / fileDescriptorReceived *)
(* / rawDBusMessageReceived, and the sending side sendMessage.             *)
(*                                                                         *)
(* The byte stream is a constant of the instance: an optional leading NUL  *)
(* (server role), NL handshake lines each ending in CRLF - the NL-th line  *)
(* is the one that makes the authenticator report success - followed by    *)
(* the messages.  What the environment chooses is how the stream is cut    *)
(* into reads (Read(k) for every k) and when descriptors arrive relative   *)
(* to the reads (FdArrive), subject to the stream-socket rule that a       *)
(* descriptor arrives no later than the last byte of its message and in    *)
(* sending order.                                                          *)
(*                                                                         *)
(* The state is implementation shaped (buffer, pending length, mode,       *)
(* descriptor queue); the invariants say that what has been delivered is a *)
(* function of the number of bytes read only (C04) and that every          *)
(* descriptor argument resolves to the descriptor sent with it (C20).      *)
(***************************************************************************)
EXTENDS Naturals, Sequences, FiniteSets

CONSTANTS
    Lead,       \* 1 if the stream starts with the NUL byte a server consumes, else 0
    LineEnd,    \* <<e1, ..., eNL>>: stream index of the LF ending each handshake line (<<>>: none)
    MsgLen,     \* <<l1, ..., lM>>: total length of each message, each >= 16
    MsgFds,     \* <<f1, ..., fM>>: number of descriptors sent with each message
    HIdx,       \* <<h1, ..., hM>>: for each message the sequence of descriptor indexes (0-based) its
                \*                  UNIX_FD arguments carry, in argument order
    CumLen,     \* <<c1, ..., cM>>: ci = l1 + ... + li   (supplied to keep evaluation linear; checked below)
    CumFds,     \* <<d1, ..., dM>>: di = f1 + ... + fi
    MaxRead,    \* largest k offered to Read (Len(stream) for all partitions)
    Deviations

VARIABLES
    pos,        \* bytes of the stream received so far
    mode,       \* "line" | "bin"
    linesFed,   \* handshake lines handed to the authenticator
    authed,     \* how often the connection was declared authenticated
    bufStart,   \* stream index of the first byte still buffered
    nextLen,    \* length of the message being awaited, 0 if its header is not yet complete
    delivered,  \* sequence of message numbers delivered so far
    batch,      \* message numbers delivered by the last callback
    nfd,        \* descriptors that have arrived
    fdq,        \* queue of descriptors received and not yet consumed (descriptor numbers)
    resolved,   \* for each delivered message, what its UNIX_FD arguments resolved to
    rbatch      \* the entries of `resolved` added by the last callback

vars == <<pos, mode, linesFed, authed, bufStart, nextLen, delivered, batch, nfd, fdq, resolved, rbatch>>

Dev(n) == n \in Deviations

NL == Len(LineEnd)
M  == Len(MsgLen)

ASSUME CumOK ==
    /\ Len(CumLen) = M /\ Len(CumFds) = M /\ Len(MsgFds) = M /\ Len(HIdx) = M
    /\ \A i \in 1..M : /\ CumLen[i] = (IF i = 1 THEN 0 ELSE CumLen[i - 1]) + MsgLen[i]
                       /\ CumFds[i] = (IF i = 1 THEN 0 ELSE CumFds[i - 1]) + MsgFds[i]
                       /\ MsgLen[i] >= 16
                       /\ \A j \in 1..Len(HIdx[i]) : HIdx[i][j] < MsgFds[i]

SumLen(i) == IF i = 0 THEN 0 ELSE CumLen[i]
BinStart == IF NL = 0 THEN Lead + 1 ELSE LineEnd[NL] + 1
MsgStart(i) == BinStart + SumLen(i - 1)
MsgEnd(i) == BinStart + SumLen(i) - 1
StreamLen == BinStart - 1 + SumLen(M)
TotalFds == IF M = 0 THEN 0 ELSE CumFds[M]
FdsBefore(i) == IF i <= 1 THEN 0 ELSE CumFds[i - 1]      \* descriptors belonging to messages 1..i-1
SentFds(i) == [j \in 1..Len(HIdx[i]) |-> FdsBefore(i) + HIdx[i][j] + 1]

(* number of messages that are complete within the first p bytes *)
CompleteAt(p) == Cardinality({i \in 1..M : MsgEnd(i) <= p})

Init ==
    /\ pos = 0
    /\ mode = IF NL = 0 THEN "bin" ELSE "line"
    /\ linesFed = 0
    /\ authed = 0
    /\ bufStart = IF NL = 0 THEN Lead + 1 ELSE 1     \* instance without handshake: NUL already consumed
    /\ nextLen = 0
    /\ delivered = <<>>
    /\ batch = <<>>
    /\ nfd = 0
    /\ fdq = <<>>
    /\ resolved = <<>>
    /\ rbatch = <<>>

(* the binary-mode loop of dataReceived: s = [bs, nl, dl, q, rs], p = bytes received *)
RECURSIVE BinLoop(_, _)
BinLoop(s, p) ==
    LET avail == p - s.bs + 1
        i == Len(s.dl) + 1
        nl1 == IF s.nl = 0 /\ avail >= 16 THEN MsgLen[i] ELSE s.nl
    IN  IF nl1 # 0 /\ avail >= nl1
        THEN BinLoop([bs |-> s.bs + nl1, nl |-> 0, dl |-> Append(s.dl, i),
                      q  |-> SubSeq(s.q, MsgFds[i] + 1, Len(s.q)),
                      rs |-> Append(s.rs, [j \in 1..Len(HIdx[i]) |->
                                              IF HIdx[i][j] + 1 <= Len(s.q) THEN s.q[HIdx[i][j] + 1] ELSE 0])],
                     p)
        ELSE [s EXCEPT !.nl = nl1]

(* complete handshake lines within the first p bytes that were not yet fed *)
NewLines(p) == {j \in (linesFed + 1)..NL : LineEnd[j] <= p}

Apply(s) ==
    /\ bufStart' = s.bs
    /\ nextLen' = s.nl
    /\ delivered' = s.dl
    /\ batch' = SubSeq(s.dl, Len(delivered) + 1, Len(s.dl))
    /\ fdq' = s.q
    /\ resolved' = s.rs
    /\ rbatch' = SubSeq(s.rs, Len(resolved) + 1, Len(s.rs))

(* one dataReceived callback with the next k bytes of the stream *)
Read(k) ==
    /\ k >= 1 /\ pos + k <= StreamLen
    \* stream-socket rule: descriptors of every message completed by this read have arrived
    /\ nfd >= FdsBefore(CompleteAt(pos + k) + 1)
    /\ pos' = pos + k
    /\ nfd' = nfd
    /\ LET p == pos + k
           cur == [bs |-> bufStart, nl |-> nextLen, dl |-> delivered, q |-> fdq, rs |-> resolved]
       IN IF mode = "bin"
          THEN /\ Apply(BinLoop(cur, p))
               /\ UNCHANGED <<mode, linesFed, authed>>
          ELSE LET fed == linesFed + Cardinality(NewLines(p))
               IN IF fed = NL
                  THEN \* the line that completes authentication has arrived: everything after it
                       \* is message data, including what came in this very read
                       /\ mode' = "bin"
                       /\ linesFed' = NL
                       /\ authed' = authed + 1
                       /\ Apply(BinLoop([cur EXCEPT !.bs = LineEnd[NL] + 1], p))
                  ELSE /\ mode' = "line"
                       /\ linesFed' = fed
                       /\ authed' = authed
                       /\ bufStart' = IF fed = 0 THEN Lead + 1 ELSE LineEnd[fed] + 1   \* a server drops the leading NUL
                       /\ batch' = <<>> /\ rbatch' = <<>>
                       /\ UNCHANGED <<nextLen, delivered, fdq, resolved>>

(* one fileDescriptorReceived callback *)
FdArrive ==
    /\ nfd < TotalFds
    /\ nfd' = nfd + 1
    /\ fdq' = Append(fdq, nfd + 1)
    /\ batch' = <<>> /\ rbatch' = <<>>
    /\ UNCHANGED <<pos, mode, linesFed, authed, bufStart, nextLen, delivered, resolved>>

Next == (\E k \in 1..MaxRead : Read(k)) \/ FdArrive

Spec == Init /\ [][Next]_vars

-----------------------------------------------------------------------------
(* C04 *)
TypeOK == /\ pos \in 0..StreamLen /\ mode \in {"line", "bin"} /\ nextLen \in Nat

(* the buffer always begins at a message boundary (inductive core) *)
Boundary == mode = "bin" => bufStart = MsgStart(Len(delivered) + 1)

(* exactly the messages sent, each once, in order *)
InOrder == delivered = [i \in 1..Len(delivered) |-> i]

(* independence from the partition: what was delivered depends on the bytes received only *)
PartitionFree == Len(delivered) = CompleteAt(pos)

Quiescent == pos = StreamLen => Len(delivered) = M

PendingLen ==
    mode = "bin" =>
        nextLen = IF Len(delivered) < M /\ pos - bufStart + 1 >= 16 THEN MsgLen[Len(delivered) + 1] ELSE 0

AuthOnce == authed = IF NL > 0 /\ pos >= LineEnd[NL] THEN 1 ELSE 0

LineMode == mode = "line" <=> (NL > 0 /\ pos < LineEnd[NL])

(* C20 *)
Attribution == \A i \in 1..Len(delivered) : resolved[i] = SentFds(i)

QueueTail == fdq = [j \in 1..(nfd - FdsBefore(Len(delivered) + 1)) |-> FdsBefore(Len(delivered) + 1) + j]

=============================================================================
