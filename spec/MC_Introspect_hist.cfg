SPECIFICATION Spec
CONSTANTS
  MNames <- cMNames
  INames <- cINames
  DefPool <- PoolHist
  MaxObjs = 4
INVARIANT KnownPointsToNamesake
PROPERTY RoundTripStep
CHECK_DEADLOCK FALSE
