------------------------------ MODULE Message ------------------------------
(***************************************************************************)
(* DBus messages (txdbus.message): construction / serialisation            *)
(* (DBusMessage._marshal and the four constructors) and parsing            *)
(* (parseMessage).  Written from the "Message Format" section of the DBus  *)
(* specification on top of the reference codec of Wire.tla.                *)
(*                                                                         *)
(* An abstract message is a record                                         *)
(*   [type, nr, na, serial, fields, bodyT, body]                           *)
(* type 1..4; nr/na = NO_REPLY_EXPECTED / NO_AUTO_START; serial a number;   *)
(* fields a sequence of <<code, T, value>> (header fields other than        *)
(* SIGNATURE, in wire order); bodyT / body the body types and values.       *)
(***************************************************************************)
EXTENDS Wire

HFT == <<"a", <<"(", << <<"y">>, <<"v">> >> >> >>      \* a(yv)

(* every header field as it goes on the wire, SIGNATURE (code 8) included when there is a body *)
WireFields(m, sigpos) ==
    LET fs == [i \in 1..Len(m.fields) |-> << <<m.fields[i][1]>>, <<m.fields[i][2], m.fields[i][3]>> >>]
        sg == << <<8>>, << <<"g">>, [i \in 1..Len(SigSeq(m.bodyT)) |-> Ascii[SigSeq(m.bodyT)[i]]] >> >>
    IN IF m.bodyT = <<>> THEN fs
       ELSE SubSeq(fs, 1, sigpos) \o <<sg>> \o SubSeq(fs, sigpos + 1, Len(fs))

Flags(m) == (IF m.nr THEN 1 ELSE 0) + (IF m.na THEN 2 ELSE 0)

(* the bytes a conforming implementation sends for m in byte order le, SIGNATURE inserted after
   sigpos other fields *)
EncMsg(m, le, sigpos) ==
    LET body == EncSeq(m.bodyT, m.body, 0, le)
        fixed == <<IF le THEN 108 ELSE 66, m.type, Flags(m), 1>> \o U32(Len(body), le) \o U32(m.serial, le)
        farr == Enc(HFT, WireFields(m, sigpos), 12, le)
        hdr == fixed \o farr
    IN hdr \o Zeros(PadLen(Len(hdr), 8)) \o body

-----------------------------------------------------------------------------
(* Parsing / well-formedness of a byte string presented as one complete message *)

NoMsg == [ok |-> FALSE]

ParseMsg(raw) ==
    IF Len(raw) < 16 \/ raw[1] \notin {108, 66} THEN NoMsg
    ELSE
    LET le == raw[1] = 108
        b4(p) == LET x == Bytes(raw, p, 4) IN Num(IF le THEN x ELSE Rev(x))
        x4(p) == LET x == Bytes(raw, p, 4) y == IF le THEN x ELSE Rev(x)       \* exact (serials < 2^31)
                 IN y[1] + 256 * y[2] + 65536 * y[3] + 16777216 * y[4]
        blen == b4(4)
        fr == Dec(HFT, raw, 12, le, 10000, FALSE)
    IN IF ~fr.ok THEN NoMsg
       ELSE
       LET hend == fr.p
           bstart == hend + PadLen(hend, 8)
           flds == fr.v
           sigs == {i \in 1..Len(flds) : flds[i][1] = <<8>>}
           sgchars == IF sigs = {} THEN <<>>
                      ELSE LET sv == flds[CHOOSE i \in sigs : TRUE][2][2] IN [i \in 1..Len(sv) |-> CharOf(sv[i])]
           ps == ParseSig(sgchars)
       IN IF bstart > Len(raw) \/ ~ps.ok THEN NoMsg
          ELSE LET br == DecSeq(ps.Ts, raw, bstart, le, 10000, FALSE, <<>>)
               IN IF ~br.ok THEN NoMsg
                  ELSE [ok |-> TRUE, le |-> le, type |-> raw[2],
                        nr |-> (raw[3] % 2) = 1, na |-> ((raw[3] \div 2) % 2) = 1,
                        version |-> raw[4], blen |-> blen, serial |-> x4(8),
                        fields |-> {<<flds[i][1][1], flds[i][2][1], flds[i][2][2]>> : i \in (1..Len(flds)) \ sigs},
                        nsig |-> Cardinality(sigs), nflds |-> Len(flds),
                        hpadzero |-> \A i \in (hend + 1)..bstart : raw[i] = 0,
                        bodyT |-> ps.Ts, body |-> br.v, bused |-> br.p - bstart,
                        total |-> Len(raw), bstart |-> bstart]

(* the type each known header field must have *)
FieldType(c) == CASE c = 1 -> "o" [] c \in {2, 3, 4, 6, 7} -> "s" [] c \in {5, 9} -> "u" [] c = 8 -> "g" [] OTHER -> "?"

Required(t) == CASE t = 1 -> {1, 3} [] t = 2 -> {5} [] t = 3 -> {4, 5} [] t = 4 -> {1, 2, 3} [] OTHER -> {}

(* fixed header, header-field array, zero padding to an 8-byte boundary, body of the declared
   length, non-zero serial, required fields present, each code at most once and of its prescribed type *)
WellFormed(raw) ==
    LET p == ParseMsg(raw) IN
    /\ p.ok
    /\ p.version = 1
    /\ p.type \in 1..4
    /\ p.serial # 0
    /\ p.hpadzero
    /\ p.bstart % 8 = 0
    /\ p.blen = p.total - p.bstart
    /\ p.bused = p.blen
    /\ p.nsig <= 1
    /\ (p.bodyT # <<>>) => p.nsig = 1
    /\ \A c \in Required(p.type) : \E f \in p.fields : f[1] = c
    /\ \A f, g \in p.fields : f[1] = g[1] => f = g
    /\ p.nflds - p.nsig = Cardinality(p.fields)         \* ... not even twice with the same value
    /\ \A f \in p.fields : f[1] \in 1..9 => f[2] = <<FieldType(f[1])>>

(* what parsing must recover from m *)
Project(m) == [type |-> m.type, nr |-> m.nr, na |-> m.na, serial |-> m.serial,
               fields |-> {m.fields[i] : i \in 1..Len(m.fields)}, bodyT |-> m.bodyT, body |-> m.body]

Recovered(raw) == LET p == ParseMsg(raw) IN
    [type |-> p.type, nr |-> p.nr, na |-> p.na, serial |-> p.serial, fields |-> p.fields,
     bodyT |-> p.bodyT, body |-> p.body]

=============================================================================
