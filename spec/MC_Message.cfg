SPECIFICATION Spec
CONSTANTS
  MTypes = {1, 2, 3, 4}
INVARIANT RefWellFormed
INVARIANT RefParseBack
CHECK_DEADLOCK FALSE
