---------------------------- MODULE MC_Calls ----------------------------
(* Bounded instances of Calls.  The constant sets are chosen by the cfg files. *)
EXTENDS Calls

(* instance A: interleavings.  One configuration per "slot" so that path enumeration stays small. *)
CfgsA == { [dl |-> TRUE,  ret |-> "nocheck", nr |-> FALSE],
           [dl |-> FALSE, ret |-> "s",       nr |-> FALSE] }
(* instance B: full alphabet *)
CfgsB == [dl : BOOLEAN, ret : RetSigs, nr : BOOLEAN]

ShapesA == {"one"}
EShapesA == {"msg"}

=========================================================================
