---- MODULE MC_ObjTree ----
EXTENDS ObjTree
cPaths == { <<>>, <<"a">>, <<"a", "b">>, <<"a", "bc">>, <<"a", "b", "c">>, <<"ab">> }
cPathsBig == cPaths \cup { <<"a", "b", "c", "d">>, <<"a", "b", "cd">>, <<"a", "bc", "c">> }
====
