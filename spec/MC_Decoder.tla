---- MODULE MC_Decoder ----
EXTENDS Decoder
VARIABLE rec
(* recorded decode of hostile bytes by the implementation *)
TraceWork == AcceptableWork(rec)
TraceIsolated == AcceptableIsolation(rec)
TraceScaling == AcceptableScaling(rec)
TraceCopy == AcceptableCopy(rec)
Dummy == T = <<>> /\ le = TRUE /\ d = <<>>
====
