SPECIFICATION Spec
CONSTANTS
  MaxLen = 5
  Alphabet = {0, 1, 4, 8, 255}
  ZeroOK = FALSE
  Fuel = 60
INVARIANT Bounded
INVARIANT InData
CHECK_DEADLOCK FALSE
