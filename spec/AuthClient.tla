----------------------------- MODULE AuthClient -----------------------------
(***************************************************************************)
(* Client side of the DBus authentication handshake (C07):                 *)
(* txdbus.authentication.ClientAuthenticator driven by                     *)
(* BasicDBusProtocol.dataReceived in line mode.  One action per line the   *)
(* server may send; `out` is what the client writes in response.           *)
(***************************************************************************)
EXTENDS Naturals, Sequences, FiniteSets

CONSTANTS Unix,          \* BOOLEAN: the transport can pass file descriptors (UNIX socket)
          CookieOK,      \* BOOLEAN: the client can read the cookie the server refers to
          Pref           \* the mechanisms the application wants offered, in its order of preference

PrefStock == <<"EXTERNAL", "DBUS_COOKIE_SHA1", "ANONYMOUS">>      \* what txdbus offers unless told otherwise
PrefAlt == <<"ANONYMOUS", "EXTERNAL">>                            \* an application's own choice (subclass / instance attribute)

VARIABLES phase,         \* "auth" | "nego" | "begun" | "closed"
          todo,          \* mechanisms not yet offered, in preference order
          cur,           \* mechanism currently offered
          offered,       \* sequence of mechanisms offered so far
          okSeen,        \* an OK with a valid GUID was received
          fdAnswered,    \* the server answered NEGOTIATE_UNIX_FD (AGREE_UNIX_FD or ERROR)
          out            \* what the client wrote in response to the last line

vars == <<phase, todo, cur, offered, okSeen, fdAnswered, out>>

Live == phase \in {"auth", "nego"}

(* connection made: NUL byte and the first AUTH *)
Init ==
    /\ phase = "auth" /\ todo = Tail(Pref) /\ cur = Head(Pref) /\ offered = <<Head(Pref)>>
    /\ okSeen = FALSE /\ fdAnswered = FALSE
    /\ out = <<"NUL", "AUTH " \o Head(Pref)>>

(* offer the next mechanism or give up *)
TryNext ==
    IF todo = <<>>
    THEN /\ phase' = "closed" /\ out' = <<"close">> /\ UNCHANGED <<todo, cur, offered>>
    ELSE /\ cur' = Head(todo) /\ todo' = Tail(todo) /\ offered' = Append(offered, Head(todo))
         /\ out' = <<"AUTH " \o Head(todo)>> /\ phase' = phase

Begin == phase' = "begun" /\ out' = <<"BEGIN">> /\ UNCHANGED <<todo, cur, offered>>

Rejected ==
    /\ Live
    /\ TryNext
    /\ UNCHANGED <<okSeen, fdAnswered>>

ErrorLine ==
    /\ Live
    /\ IF phase = "nego"
       THEN Begin /\ fdAnswered' = TRUE /\ UNCHANGED okSeen      \* accepted, but no descriptor passing
       ELSE TryNext /\ UNCHANGED <<okSeen, fdAnswered>>

BadGuids == {"nothex", "missing", "spaced", "odd", "tabbed"}   \* anything that is not one run of hex digit pairs
Ok(guid) ==                         \* guid \in {"valid"} \cup BadGuids
    /\ Live
    /\ IF guid # "valid"
       THEN phase' = "closed" /\ out' = <<"close">> /\ UNCHANGED <<todo, cur, offered, okSeen, fdAnswered>>
       ELSE /\ okSeen' = TRUE /\ UNCHANGED <<todo, cur, offered, fdAnswered>>
            /\ IF Unix THEN phase' = "nego" /\ out' = <<"NEGOTIATE_UNIX_FD">>
               ELSE phase' = "begun" /\ out' = <<"BEGIN">>

Agree ==
    /\ Live
    /\ IF Unix /\ phase = "nego"
       THEN Begin /\ fdAnswered' = TRUE /\ UNCHANGED okSeen
       ELSE phase' = "closed" /\ out' = <<"close">> /\ UNCHANGED <<todo, cur, offered, okSeen, fdAnswered>>

Data(kind) ==                       \* kind \in {"challenge", "garbage", "noid"}; noid: a well-formed challenge naming a
                                    \* cookie that is not in the (readable) keyring file
    /\ Live
    /\ out' = CASE cur = "EXTERNAL" -> <<"DATA">>
                [] cur = "DBUS_COOKIE_SHA1" -> IF kind = "challenge" /\ CookieOK THEN <<"DATA response">> ELSE <<"ERROR">>
                [] cur = "ANONYMOUS" -> <<"ERROR">>
    /\ UNCHANGED <<phase, todo, cur, offered, okSeen, fdAnswered>>

(* anything that is not a server command of the protocol *)
Unknown(kind) ==                    \* "word", "empty", "nontext", "begin", "endless" (more than 16 KiB and still no CR LF)
    /\ Live
    /\ phase' = "closed" /\ out' = <<"close">>
    /\ UNCHANGED <<todo, cur, offered, okSeen, fdAnswered>>

(* once the client has hung up, whatever the server still says - in the same read as the line that
   made it give up, or later - is ignored: nothing more is written *)
AfterClose(kind) ==
    /\ phase = "closed"
    /\ out' = <<>>
    /\ UNCHANGED <<phase, todo, cur, offered, okSeen, fdAnswered>>

Next ==
    \/ (\E k \in {"ok", "rejected"} : AfterClose(k))
    \/ Rejected \/ ErrorLine \/ Agree
    \/ \E g \in {"valid"} \cup BadGuids : Ok(g)
    \/ \E k \in {"challenge", "garbage", "noid"} : Data(k)
    \/ \E k \in {"word", "empty", "nontext", "begin", "endless"} : Unknown(k)

Spec == Init /\ [][Next]_vars

-----------------------------------------------------------------------------
TypeOK == phase \in {"auth", "nego", "begun", "closed"}

(* BEGIN only after a valid OK and, on a UNIX transport, after the negotiation was answered *)
BeginSafe == phase = "begun" => okSeen /\ (Unix => fdAnswered)

(* mechanisms are offered in preference order, each at most once *)
InOrderOnce == offered = SubSeq(Pref, 1, Len(offered))

(* the client never goes silent while the handshake is open *)
NoStall == [][Live => out' # <<>>]_vars

(* it gives up only when nothing is left to offer or the server left the protocol *)
ClosedForReason == [][phase' = "closed" /\ phase # "closed" =>
                        \/ todo = <<>>
                        \/ \E g \in BadGuids : Ok(g)
                        \/ \E k \in {"word", "empty", "nontext", "begin", "endless"} : Unknown(k)
                        \/ Agree]_vars
=============================================================================
