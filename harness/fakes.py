"""In-memory stand-ins for sockets and the reactor.  Nothing here touches the network, the real
reactor or ~/.dbus-keyrings."""
import os
import struct
import sys

os.environ.setdefault('PYTHONHASHSEED', '0')
REPO = os.environ.get('TXDBUS_REPO', '/repo')
if REPO not in sys.path:
    sys.path.insert(0, REPO)

from twisted.internet import interfaces, task          # noqa: E402
from twisted.python import failure                      # noqa: E402
from twisted.internet.error import ConnectionDone, ConnectionLost  # noqa: E402
from zope.interface import implementer                  # noqa: E402

from twisted import logger as _tlogger                  # noqa: E402

# callbacks that raise are part of several scenarios: keep Twisted from printing every logged failure
_tlogger.globalLogBeginner.beginLoggingTo([lambda event: None], redirectStandardIO=False, discardBuffer=True)

import txdbus.client                                    # noqa: E402
import txdbus.protocol                                  # noqa: E402
from txdbus import message, marshal                     # noqa: E402


class FakeSocket:
    def __init__(self, creds=(4242, 0, 0)):
        self.creds = creds

    def getsockopt(self, level, opt, size):
        return struct.pack('3i', *self.creds)


@implementer(interfaces.ITransport)
class MemoryTransport:
    """Records everything written.  log = [('fd', n) | ('bytes', b) | ('close',)] in call order."""
    disconnecting = False
    disconnected = False

    def __init__(self, creds=(4242, 0, 0)):
        self.log = []
        self.out = bytearray()
        self.socket = FakeSocket(creds)
        self.protocol = None

    def write(self, data):
        if self.disconnecting:
            self.log.append(('write-after-close', bytes(data)))
            return
        self.log.append(('bytes', bytes(data)))
        self.out += data

    def writeSequence(self, seq):
        self.write(b''.join(seq))

    def sendFileDescriptor(self, fd):
        self.log.append(('fd', fd))

    def loseConnection(self):
        if not self.disconnecting:
            self.log.append(('close',))
        self.disconnecting = True

    def abortConnection(self):
        self.loseConnection()

    def getPeer(self):
        return 'peer'

    def getHost(self):
        return 'host'

    def take(self):
        """Return and clear the bytes written since the last take()."""
        b = bytes(self.out)
        del self.out[:]
        return b


@implementer(interfaces.IUNIXTransport)
class UnixMemoryTransport(MemoryTransport):
    pass


def install_clock():
    """Replace the reactor used by txdbus.client for call timeouts with a virtual clock."""
    clock = task.Clock()
    txdbus.client.reactor = clock
    return clock


def split_messages(data):
    """Split a byte string written by a txdbus endpoint into raw DBus messages (independent of
    txdbus framing code: uses the lengths in the fixed header)."""
    msgs = []
    i = 0
    n = len(data)
    while i < n:
        if n - i < 16:
            raise ValueError('trailing partial header: %r' % data[i:])
        e = '<' if data[i:i + 1] == b'l' else '>'
        body_len = struct.unpack(e + 'I', data[i + 4:i + 8])[0]
        harr = struct.unpack(e + 'I', data[i + 12:i + 16])[0]
        hlen = 16 + harr
        hlen += (8 - hlen % 8) % 8
        tot = hlen + body_len
        if i + tot > n:
            raise ValueError('trailing partial message')
        msgs.append(bytes(data[i:i + tot]))
        i += tot
    return msgs


def parse_all(data):
    return [message.parseMessage(m, []) for m in split_messages(data)]


class Factory:
    """Minimal stand-in for DBusClientFactory that records _ok/_failed."""

    def __init__(self):
        self.ok = []
        self.failed = []

    def _ok(self, proto):
        self.ok.append(proto)

    def _failed(self, err):
        self.failed.append(err)


def ready_client(unix=False, bus_name=':1.7'):
    """A real DBusClientConnection taken through authentication and Hello over a MemoryTransport.
    Returns (conn, transport, factory)."""
    t = (UnixMemoryTransport if unix else MemoryTransport)()
    c = txdbus.client.DBusClientConnection()
    f = Factory()
    c.factory = f
    c.makeConnection(t)
    t.protocol = c
    out = t.take()
    assert out.startswith(b'\0AUTH '), out
    c.dataReceived(b'OK ' + b'1234deadbeef' + b'\r\n')
    if unix:
        c.dataReceived(b'AGREE_UNIX_FD\r\n')
    out = t.take()
    i = out.index(b'BEGIN\r\n') + 7
    hello = parse_all(out[i:])
    assert len(hello) == 1 and hello[0].member == 'Hello', hello
    r = message.MethodReturnMessage(hello[0].serial, body=[bus_name], signature='s',
                                    destination=bus_name)
    c.dataReceived(r.rawMessage)
    assert f.ok == [c], (f.ok, f.failed)
    t.take()
    del t.log[:]
    return c, t, f


def conn_done():
    return failure.Failure(ConnectionDone('closed cleanly (harness)'))


def conn_lost():
    return failure.Failure(ConnectionLost('connection lost (harness)'))


# ----------------------------------------------------------------------------------------------
# deterministic in-memory network: client <-> built-in bus


class PipeTransport(MemoryTransport):
    """Transport whose written bytes are queued for the peer; nothing moves until the schedule says."""

    def __init__(self, name, creds=(4242, 0, 0)):
        MemoryTransport.__init__(self, creds)
        self.name = name
        self.queue = bytearray()      # bytes written and not yet delivered to the peer
        self.peer_proto = None
        self.closed_delivered = False

    def write(self, data):
        if self.disconnecting:
            return
        self.log.append(('bytes', bytes(data)))
        self.queue += data


@implementer(interfaces.IUNIXTransport)
class UnixPipeTransport(PipeTransport):
    pass


class BusNet:
    """A real Bus with any number of real DBusClientConnections attached over PipeTransports.
    Link names:  ('c2b', i) bytes written by client i waiting to reach the bus,
                 ('b2c', i) bytes written by the bus for client i."""

    def __init__(self, unix=False):
        import txdbus.bus
        from twisted.internet.protocol import Factory
        self.clock = install_clock()
        self.bus = txdbus.bus.Bus()
        self.bfac = Factory()
        self.bfac.protocol = txdbus.bus.BusProtocol
        self.bfac.bus = self.bus
        self.unix = unix
        self.clients = []      # (conn, client_transport, bus_proto, bus_transport, factory)

    def add_client(self):
        i = len(self.clients)
        ct = (UnixPipeTransport if self.unix else PipeTransport)('c%d' % i)
        bt = PipeTransport('b%d' % i)
        conn = txdbus.client.DBusClientConnection()
        fac = txdbus.client.DBusClientFactory()
        conn.factory = fac
        bp = self.bfac.buildProtocol(None)
        ct.peer_proto = bp
        bt.peer_proto = conn
        self.clients.append((conn, ct, bp, bt, fac))
        bp.makeConnection(bt)
        conn.makeConnection(ct)
        return i

    def pending(self):
        out = []
        for i, (conn, ct, bp, bt, fac) in enumerate(self.clients):
            if ct.queue:
                out.append(('c2b', i))
            if bt.queue:
                out.append(('b2c', i))
        return out

    def deliver(self, link, nbytes=None):
        kind, i = link
        conn, ct, bp, bt, fac = self.clients[i]
        src, dst = (ct, bp) if kind == 'c2b' else (bt, conn)
        n = len(src.queue) if nbytes is None else min(nbytes, len(src.queue))
        data = bytes(src.queue[:n])
        del src.queue[:n]
        if data:
            dst.dataReceived(data)
        return n

    def run(self, limit=10000):
        """deliver everything in FIFO order until quiescent"""
        n = 0
        while True:
            p = self.pending()
            if not p:
                return n
            for link in p:
                self.deliver(link)
                n += 1
                if n > limit:
                    raise RuntimeError('network does not quiesce')

    def ready(self, i):
        return bool(self.clients[i][4].d.called) and self.clients[i][0].busName is not None
