"""C05 - malformed or hostile message bytes are rejected in bounded time.
Spec: spec/Decoder.tla (step-counting reference decoder of Wire.tla, generator machine over byte
strings, Bounded invariant, deviation ZeroOK).  Binding: the real decoder runs under a call counter."""
import random
import sys
import time

from . import fakes  # noqa: F401  (installs the quiet log observer, repo path)
from . import core, tlc, refwire, wirecodec as wc
from .tlaval import to_tla

from txdbus import marshal, message

OBS = ['rec']
CALLS_PER_STEP = 40
SLACK = 400


class Budget(BaseException):
    pass


def counted(fn, budget):
    """run fn() counting interpreter call events (Python and C calls); abort beyond budget.
    returns (outcome, calls, result)"""
    n = [0]

    def prof(frame, event, arg):
        if event == 'call' or event == 'c_call':
            n[0] += 1
            if n[0] > budget:
                raise Budget()
    old = sys.getprofile()
    sys.setprofile(prof)
    try:
        try:
            r = fn()
            out = 'value'
        except Budget:
            r, out = None, 'budget'
        except MemoryError:
            r, out = None, 'memory'
        except RecursionError:
            r, out = None, 'recursion'
        except Exception as ex:
            r, out = ex, 'exception'
    finally:
        sys.setprofile(old)
    return out, n[0], r


def bound(nbytes, nsig):
    return CALLS_PER_STEP * (nbytes + nsig + 1) + SLACK


def hsig(T):
    """signature string of a (possibly hostile) type tree"""
    c = T[0]
    if c == 'a':
        return 'a' + hsig(T[1])
    if c == '(':
        return '(' + ''.join(hsig(t) for t in T[1]) + ')'
    if c == '{':
        return '{' + hsig(T[1]) + hsig(T[2]) + '}'
    return c


CFG = ('SPECIFICATION Spec\nCONSTANTS\n  MaxLen = %d\n  Alphabet = {%s}\n  ZeroOK = %s\n  Fuel = 60\n'
       'INVARIANT Bounded\nINVARIANT InData\nCHECK_DEADLOCK FALSE\n')

HOSTILE_SIGS = ['a()', 'a(())', 'aa()', 'a(()())', 'a((()))', '(ia(()))', 'a{}', 'a{()}', '(', '((((((', 'a', 'aa',
                'a' * 255, 'a' * 200 + 'y', '(' * 127 + 'y' + ')' * 127, '(' * 100, 'a{vv}', 'a{', '}', ')', 'z',
                'a{sv', 'v', 'av', 'a(v)', 'a{yv}', '(yyyyuua(yv))', 'aaaaaaaaaaaaaaaaaaaaaaaaaaaaaaaay',
                'a(a(a(a(a(a(y))))))', 'ai' * 100, '()', '(())', 'ay' * 120]


def corpus(rng):
    """valid messages of all types, both byte orders, varied bodies (independent encoder)"""
    msgs = []
    for i in range(12):
        le = i % 2 == 0
        bt = tuple(wc.rand_type(rng, 2) for _ in range(rng.randint(0, 3)))
        bv = tuple(wc.rand_value(rng, t) for t in bt)
        sig = ''.join(wc.sig(t) for t in bt)
        from .c03 import ref_value
        body = [ref_value(t, v) for t, v in zip(bt, bv)]
        kind = i % 4 + 1
        fields = {1: [('path', '/a/b'), ('interface', 'org.ex.I'), ('member', 'M'), ('destination', ':1.3')],
                  2: [('reply_serial', 7), ('sender', ':1.9')],
                  3: [('error_name', 'org.ex.E'), ('reply_serial', 9)],
                  4: [('path', '/s'), ('interface', 'org.ex.I'), ('member', 'Sig')]}[kind]
        msgs.append(refwire.msg(kind, 100 + i, fields, sig or None, body, le=le))
    # deep but valid nesting
    for d in (8, 31):
        T = wc.deep_type(rng, 'a', d)
        from .c03 import ref_value
        msgs.append(refwire.msg(4, 500 + d, [('path', '/s'), ('interface', 'a.b'), ('member', 'S')], wc.sig(T),
                                [ref_value(T, wc.deep_value(T))]))
    return msgs


def mutations(rng, raw, thorough):
    out = []
    n = len(raw)
    for k in (range(n) if thorough or n < 200 else sorted(rng.sample(range(n), 120))):
        out.append(('truncate@%d' % k, raw[:k]))
    bits = [(i, b) for i in range(min(n, 96)) for b in range(8)]
    if not thorough:
        bits = rng.sample(bits, min(len(bits), 160))
    for i, b in bits:
        out.append(('flip@%d.%d' % (i, b), raw[:i] + bytes([raw[i] ^ (1 << b)]) + raw[i + 1:]))
    for off in range(0, n - 3, 4):
        for val in (0xFFFFFFFF, 0x7FFFFFFF, 0x08000000, n, n + 1):
            for e in ('<I', '>I'):
                import struct
                out.append(('lie@%d=%x' % (off, val), raw[:off] + struct.pack(e, val) + raw[off + 4:]))
    return out


def repeated_fields():
    """header arrays that name the same field again and again (a well-behaved sender never does): each field is
    looked at once, the body decoded once"""
    out = []
    for k in (64, 256, 1024):
        for le in (True, False):
            body = [i % 251 for i in range(4096)]
            out.append(('SIGNATURE x%d' % k, refwire.msg(4, 96, [('path', '/a'), ('interface', 'a.b'), ('member', 'S')] +
                                                         [('signature', 'ay')] * k, 'ay', [body], le=le), 2))
            out.append(('PATH x%d' % k, refwire.msg(4, 97, [('interface', 'a.b'), ('member', 'S')] + [('path', '/a/b')] * k +
                                                    [('signature', 'as')], 'as', [['s%d' % i for i in range(300)]], le=le), 2))
    return out


def long_signatures():
    """the SIGNATURE header field given as a STRING, which can hold more than the 255 characters a signature may have:
    a body signature of hundreds of empty structs makes every array element cost as many steps"""
    out = []
    V = refwire.Variant
    for n, e in ((400, 400), (1600, 1600)):
        sg = 'a(' + '()' * n + 'y)'
        elems = b''.join(b'\x01' + b'\0' * 7 for _ in range(e))
        for le in (True, False):
            body = len(elems).to_bytes(4, 'little' if le else 'big') + b'\0' * 4 + elems
            fl = [(1, V('o', '/p')), (2, V('s', 'a.b')), (3, V('s', 'M')), (8, V('s', sg))]
            hdr = refwire.enc('yyyyuua(yv)', [ord('l') if le else ord('B'), 4, 0, 1, len(body), 5, fl], 0, le)
            out.append(('SIGNATURE field given as a string of %d characters' % len(sg), hdr + b'\0' * ((8 - len(hdr) % 8) % 8) + body, 255))
    return out


def hostile_messages(rng):
    out = repeated_fields() + long_signatures()
    bodies = [b'', b'\x04\0\0\0' + b'\0' * 12, b'\0\0\0\x04' + b'\1' * 12, b'\xff' * 16, b'\x01\0\0\0\0\0\0\0\x01',
              bytes(range(64)), b'\x10\0\0\0' + b'\0' * 28, b'\0' * 40]
    for sg in HOSTILE_SIGS:
        for body in bodies:
            for le in (True, False):
                try:
                    raw = refwire.msg(1, 77, [('path', '/p'), ('member', 'M'), ('signature', sg)], sg, None, le=le,
                                      body_raw=body)
                except Exception:
                    continue
                out.append(('sig=%s body=%d' % (sg[:20], len(body)), raw, len(sg)))
    # hostile signature inside a variant in the body
    for sg in HOSTILE_SIGS:
        if len(sg) > 250:
            continue
        body = bytes([len(sg)]) + sg.encode() + b'\0' + b'\x04\0\0\0' + b'\0' * 24
        raw = refwire.msg(4, 78, [('path', '/p'), ('interface', 'a.b'), ('member', 'M'), ('signature', 'v')], 'v',
                          None, body_raw=body)
        out.append(('variant sig=%s' % sg[:20], raw, len(sg)))
    return out


def sibling_signatures():
    """grammar-directed: many sibling complete types followed by something that makes the signature
    invalid (or not) - the shape that makes an ambiguous signature recogniser backtrack"""
    out = []
    for unit in ('(y)', '{ys}', 'a(y)', 'a{ys}', '(yy)', 'ay', 'v', '((y))', 'a{s(y)}'):
        for k in (3, 12, 20, 28, 40, 63):
            for tail in ('', '(', '{', 'a(', '!', 'a', ')', '}', '(y', 'a{y'):
                sg = (unit * k)[:250 - len(tail) - (250 - len(tail)) % len(unit)] + tail
                if sg not in out:
                    out.append(sg)
    return out


CPU_LIMIT = 30


def cpu_cases():
    out = []
    for sg in sibling_signatures():
        body = b'\0' * 16
        for le in (True, False):
            try:
                out.append(('header sig=%s..%s (%d chars)' % (sg[:8], sg[-4:], len(sg)),
                            refwire.msg(1, 79, [('path', '/p'), ('member', 'M'), ('signature', sg)], sg, None, le=le,
                                        body_raw=body), len(sg)))
            except Exception:
                pass
        vbody = bytes([len(sg)]) + sg.encode() + b'\0' + b'\0' * 24
        out.append(('variant sig=%s..%s (%d chars)' % (sg[:8], sg[-4:], len(sg)),
                    refwire.msg(4, 80, [('path', '/p'), ('interface', 'a.b'), ('member', 'M'), ('signature', 'v')], 'v',
                                None, body_raw=vbody), len(sg)))
    return out


def count_lies():
    """header fields that announce a quantity (descriptors) far beyond what the message holds"""
    out = []
    for n in (0, 1, 3, 2 ** 16, 2 ** 22, 2 ** 27, 2 ** 31 - 1, 2 ** 32 - 1):
        for le in (True, False):
            for sg, body in (('h', b'\0\0\0\0'), ('s', b'\x01\0\0\0x\0'), (None, b'')):
                if not le and body[:1] == b'\x01':
                    body = b'\0\0\0\x01x\0'
                fields = [('path', '/p'), ('member', 'M'), ('unix_fds', n)]
                try:
                    raw = refwire.msg(1, 81, fields, sg, None, le=le, body_raw=body)
                except Exception:
                    continue
                out.append(('unix_fds=%d sig=%s' % (n, sg), raw, 4))
    return out


def palindromic_message(flag, dest):
    """a signal whose two length fields read the same in either byte order (header array of 0x00010100 bytes thanks to
    a long object path, no body), written big-endian under the given byte-order flag: every reader that takes a flag
    other than 'l' for big-endian frames and parses it alike; readers that disagree about the flag do not"""
    want = 0x00010100
    for n in range(65600, 65800):
        path = '/' + 'p' * n
        raw = refwire.msg(4, 90, [('interface', 'a.b'), ('member', 'S'), ('destination', dest), ('path', path)], le=False)
        import struct
        if struct.unpack('>I', raw[12:16])[0] == want:
            return bytes([flag]) + raw[1:]
    raise core.Machinery('no palindromic header length found')


def bus_isolation(chk, rng, thorough):
    """hostile bytes from one connection of the built-in bus must cost that connection only: after each of them a
    third client's signal still reaches the victim's callback (real bus, real victim and sender over in-memory links)"""
    from txdbus import message as _m
    net = fakes.BusNet()
    v, c = net.add_client(), net.add_client()
    net.run()
    vconn, cconn = net.clients[v][0], net.clients[c][0]
    got = []
    vconn.addMatch(lambda m: got.append(m.body[0]), mtype='signal', interface='org.ex.Probe', member='Probe')
    net.run()
    vname = vconn.busName
    from txdbus import objects as _o, interface as _i

    class Served(_o.DBusObject):
        dbusInterfaces = [_i.DBusInterface('org.ex.H', _i.Method('Hostile'), noRegister=True)]

        def dbus_Hostile(self):
            return None
    vconn.exportObject(Served('/h'))         # the victim serves the object the hostile messages name

    def probe(i):
        cconn.sendMessage(_m.SignalMessage('/probe', 'Probe', 'org.ex.Probe', destination=vname, signature='u', body=[i]))
        net.run()
        return bool(got) and got[-1] == i
    base = refwire.msg(4, 91, [('path', '/h'), ('interface', 'org.ex.H'), ('member', 'Hostile'), ('destination', vname)], 's', ['payload'])
    inputs = [('flag %r with palindromic lengths' % bytes([f]), palindromic_message(f, vname)) for f in (ord('X'), ord('b'), 0, 255, ord('L'))]
    muts = mutations(rng, base, thorough)
    inputs += [m for m in muts if m[0].startswith('lie@4=') or m[0].startswith('lie@12=')]      # body / header-array length lies
    inputs += [('header only, body length 2^27+1', base[:4] + (2 ** 27 + 1).to_bytes(4, 'little') + base[8:16]),
               ('header only, header length 2^27+1', base[:12] + (2 ** 27 + 1).to_bytes(4, 'little'))]
    # frames whose lengths are honest and whose BODY is not what its signature says: whoever takes them apart first
    # (the bus, for its sender) pays for them - they are not passed on for the addressee to choke on
    hfl = [('path', '/h'), ('interface', 'org.ex.H'), ('member', 'Hostile'), ('destination', vname)]
    for sg, body in (('s', b'\x03\0\0\0\xff\xfe\xfd\0'), ('s', b'\x07\0\0\0abc\0'), ('s', b'\x03\0\0\0abcd'),
                     ('as', b'\x40\0\0\0\x01\0\0\0a\0'), ('v', b'\x01s\0\0\x09\0\0\0ab\0'), ('v', b'\x03(((\0'),
                     ('ai', b'\x05\0\0\0\x01\0\0\0\x02'), ('o', b'\x02\0\0\0//\0'), ('a{ss}', b'\x08\0\0\0\0\0\0\0\x01\0\0\0')):
        for le in (True, False):
            if not le:
                body = body[:4][::-1] + body[4:]
            inputs.append(('honest frame, body %r under %s' % (body[:12], sg), refwire.msg(1, 89, hfl, sg, None, le=le, body_raw=body)))
            inputs.append(('honest frame (signal), body %r under %s' % (body[:12], sg), refwire.msg(4, 89, hfl, sg, None, le=le, body_raw=body)))
    # well-framed messages for the victim whose known HEADER FIELDS hold values of another type than the specification
    # prescribes (a member that is an array, a path that is a number ...): invalid messages, their sender's problem
    def odd_header(mtype, fields):
        hdr = refwire.enc('yyyyuua(yv)', [ord('l'), mtype, 0, 1, 0, 88, fields], 0, True)
        return hdr + b'\0' * ((8 - len(hdr) % 8) % 8)
    V = refwire.Variant
    good = {1: V('o', '/h'), 2: V('s', 'org.ex.H'), 3: V('s', 'Hostile'), 6: V('s', vname)}
    for code, odd in ((3, V('as', ['Hostile'])), (3, V('u', 7)), (2, V('as', ['org.ex.H'])), (2, V('b', True)), (1, V('ay', [47, 104])),
                      (1, V('(s)', ['/h'])), (8, V('as', ['s'])), (7, V('u', 1)), (9, V('s', 'two'))):
        fl = dict(good)
        fl[code] = odd
        for mtype in (1, 4):
            inputs.append(('header field %d holding a %s (message type %d)' % (code, odd.sig if hasattr(odd, 'sig') else '?', mtype),
                           odd_header(mtype, sorted(fl.items()))))
    for code, odd in ((5, V('s', 'seven')), (5, V('as', ['7'])), (4, V('as', ['org.ex.Err'])), (4, V('u', 3))):
        fl = {5: V('u', 7), 4: V('s', 'org.ex.Err'), 6: V('s', vname)}
        fl[code] = odd
        for mtype in (2, 3):
            inputs.append(('header field %d holding a %s (message type %d)' % (code, odd.sig if hasattr(odd, 'sig') else '?', mtype),
                           odd_header(mtype, sorted(fl.items()))))
    # header strings that are nearly what they should be: a long run of legal characters and one that is not
    for n in (26, 40):
        for mtype in (1, 4):
            inputs.append(('path of %d legal characters and one illegal' % n, refwire.msg(
                mtype, 87, [('path', '/' + 'a' * n + '!'), ('interface', 'org.ex.H'), ('member', 'Hostile'), ('destination', vname)])))
            inputs.append(('interface of %d legal characters and one illegal' % n, refwire.msg(
                mtype, 87, [('path', '/h'), ('interface', 'org.' + 'a' * n + '!'), ('member', 'Hostile'), ('destination', vname)])))
    inputs += rng.sample(muts, min(len(muts), 400 if thorough else 80))
    assert probe(0), 'probe does not arrive on the undisturbed bus'
    recs, names = [], []
    h = None
    for i, (name, raw) in enumerate(inputs, 1):
        if h is not None:
            # (a connection left waiting for the rest of an announced length would swallow the next input)
            net.clients[h][3].loseConnection()
            net.clients[h][2].connectionLost(fakes.conn_lost())
        h = net.add_client()
        net.run()
        bp = net.clients[h][2]
        # everything runs under the call counter: a decoder that loops must end as a verdict, not hang the check
        t0 = time.process_time()
        out, calls, r = counted(lambda: bp.dataReceived(raw), 40 * bound(len(raw), 64))
        spent = time.process_time() - t0
        if out != 'value':           # Twisted drops the connection of the peer that sent it
            net.clients[h][3].loseConnection()
            bp.connectionLost(fakes.conn_lost())
            h = None
        out2, calls2, ok = counted(lambda: (net.run(), probe(i))[1], 2000000)
        if out2 != 'value':
            ok, how = False, 'delivery %s' % out2
        else:
            how = 'probe delivered' if ok else 'probe lost'
        if out == 'budget':
            ok, how = False, 'the bus spent more than %d calls on %d hostile bytes' % (40 * bound(len(raw), 64), len(raw))
        elif spent > 2.0 + 0.005 * (len(raw) + 64):
            # work hidden inside single C calls (a regular expression that backtracks): the clock sees it
            ok, how = False, 'the bus spent %.1f s of CPU on %d hostile bytes' % (spent, len(raw))
        recs.append({'before': {'outcome': 'value', 'digest': 'probe delivered'},
                     'after': {'outcome': 'value' if ok else 'exception', 'digest': how}})
        names.append(name)
        if not ok:
            break
    itr = [[({'n': 'Init'}, {'rec': r})] for r in recs]
    cc = 'CONSTANTS\n MaxLen = 1\n Alphabet = {0}\n ZeroOK = FALSE\n Fuel = 10\n'
    rej, stt = core.validate_traces('MC_Decoder', OBS, itr, {}, cfg_consts=cc, initpred='Dummy /\\ TraceIsolated', nproc=2)
    chk.states += stt['states']
    chk.transitions += stt['transitions']
    chk.traces += len(itr) - len(rej)
    chk.notes['bus_isolation_inputs'] = len(recs)
    for ti, _, _ in rej[:3]:
        chk.violation('after hostile bytes (%s) from another connection the bus no longer delivers to the victim: %s' % (
            names[ti], recs[ti]['after']['digest']), dict(kind='code->spec bus isolation', module='c05', input=names[ti], rec=recs[ti]))


def array_lies(rng):
    """every length lie on messages whose bodies are arrays of fixed-width elements, arrays of arrays and strings:
    measured for allocation and CPU in the child (a decoder that sizes anything by an announced length shows here)"""
    out = []
    bodies = [('ai', [[1, 2, 3, 4]]), ('ad', [[1.5, 2.5]]), ('aay', [[[1], [2, 3]]]), ('at', [[7]]), ('as', [['a', 'b']]),
              ('a{sv}', [[('k', refwire.Variant('u', 1))]]), ('ayai', [[1, 2, 3], [5]]),
              ('ab', [[True, False, True]]), ('a(bb)', [[(True, True)]]), ('an', [[1, -2]]), ('ax', [[5]]),
              ('ah', [[0, 1, 2]]), ('a(hs)', [[(0, 'x')]])]
    import struct
    for sg, body in bodies:
        for le in (True, False):
            raw = refwire.msg(4, 92, [('path', '/a'), ('interface', 'a.b'), ('member', 'S')], sg, body, le=le)
            n = len(raw)
            for off in range(0, n - 3, 4):
                for val in (0xFFFFFFFF, 0x7FFFFFFF, 0x08000000, 0x00100000, 0x00010000):
                    out.append(('array lie %s@%d=%x' % (sg, off, val), raw[:off] + struct.pack('<I' if le else '>I', val) + raw[off + 4:],
                                len(sg)))
    return out


def scaling_cases():
    """two well-formed messages of the same shape (an array of many one-byte arrays), the second 8 times the first:
    decoding work grows with the length, not with its square"""
    out = []
    for n in (6000, 48000):
        raw = refwire.msg(4, 93, [('path', '/a'), ('interface', 'a.b'), ('member', 'S')], 'aay', [[[i % 250] for i in range(n)]])
        out.append(('scaling aay x%d' % n, raw, 3))
    return out


class CountingBytes(bytes):
    """bytes that count how many bytes are produced by slicing them (slices stay CountingBytes): copying work that no
    call counter and, at moderate sizes, no clock sees"""
    copied = [0]

    def __getitem__(self, k):
        r = bytes.__getitem__(self, k)
        if isinstance(k, slice):
            CountingBytes.copied[0] += len(r)
            return CountingBytes(r)
        return r


def copy_work(raw):
    CountingBytes.copied[0] = 0
    try:
        message.parseMessage(CountingBytes(raw), [])
        out = 'value'
    except Exception:
        out = 'exception'
    return {'len': len(raw), 'copied': CountingBytes.copied[0], 'outcome': out}


def run_cpu_child(cases):
    """decode the cases in a child with RLIMIT_CPU; returns recs (the case the child died in is
    recorded as outcome 'killed')"""
    import binascii
    import json
    import subprocess
    inp = json.dumps([binascii.hexlify(raw).decode() for _, raw, _ in cases])
    p = subprocess.run([sys.executable, '-m', 'harness.c05_child', str(CPU_LIMIT)], input=inp.encode(),
                       stdout=subprocess.PIPE, stderr=subprocess.PIPE, timeout=20 * CPU_LIMIT)
    got = {}
    for ln in p.stdout.decode().split('\n'):
        if ln.startswith('{'):
            r = json.loads(ln)
            got[r['i']] = r
    recs = []
    for i, (name, raw, nsig) in enumerate(cases):
        if i in got:
            recs.append({'len': len(raw), 'siglen': nsig + 16, 'calls': 0, 'outcome': got[i]['outcome'],
                         'cpu_ms': got[i]['cpu_ms'], 'mem_kb': got[i]['mem_kb']})
        else:
            if p.returncode >= 0 and i == len(got):
                raise core.Machinery('c05_child failed: rc=%s %s' % (p.returncode, p.stderr.decode()[-400:]))
            recs.append({'len': len(raw), 'siglen': nsig + 16, 'calls': 0, 'outcome': 'killed', 'cpu_ms': CPU_LIMIT * 1000,
                         'mem_kb': 0})
            break
    return recs


class address_space_limit:
    """while hostile bytes are decoded inside this process, its address space is capped: a decoder that sizes a buffer
    by an announced length then ends in MemoryError (judged: not acceptable work) instead of taking the machine down"""

    def __init__(self, nbytes=3 << 30):
        self.nbytes = nbytes

    def __enter__(self):
        import resource
        self.old = resource.getrlimit(resource.RLIMIT_AS)
        try:
            resource.setrlimit(resource.RLIMIT_AS, (self.nbytes, self.old[1]))
        except (ValueError, OSError):
            pass

    def __exit__(self, *a):
        import resource
        try:
            resource.setrlimit(resource.RLIMIT_AS, self.old)
        except (ValueError, OSError):
            pass


def run(tier, seed):
    chk = core.Check('C05', tier, seed)
    rng = random.Random(seed)
    thorough = tier == 'thorough'
    valid = corpus(rng)

    def decode_valid(raw):
        import hashlib
        out, calls, m = counted(lambda: message.parseMessage(raw, []), 4 * bound(len(raw), 64))
        if out == 'value':
            return {'outcome': 'value', 'digest': hashlib.sha1(repr((m._messageType, m.serial, m.signature, m.body)).encode()).hexdigest()[:12]}
        return {'outcome': 'exception' if out == 'exception' else out, 'digest': type(m).__name__}
    before = [decode_valid(raw) for raw in valid]
    # ---- 1. design level: Bounded holds; the old design (ZeroOK) violates it
    confs = [(5, '0, 1, 4, 8, 255'), (9, '0, 1, 255')] if thorough else [(4, '0, 1, 4, 8, 255'), (9, '0, 1')]
    all_states = []
    for ml, alpha in confs:
        name = 'd_%d.cfg' % ml
        res, states = tlc.dump_states('Decoder', name, extra={name: CFG % (ml, alpha, 'FALSE')}, timeout=900)
        chk.tlc_stats(res, 'Decoder MaxLen=%d' % ml)
        if not res.ok:
            chk.violation('model: Decoder %s %s' % res.violation, dict(kind='TLC', trace=repr(res.trace[-2:])))
        all_states.extend(states)
    res, _ = tlc.run('Decoder', 'dz.cfg', extra={'dz.cfg': CFG % (9, '0, 1', 'TRUE')}, timeout=600)
    chk.tlc_stats(res, 'Decoder ZeroOK deviation')
    chk.notes['deviation_ZeroOK_violates_Bounded'] = (res.violation is not None)
    if res.violation is None:
        raise core.Machinery('the ZeroOK deviation no longer violates Bounded: the model lost its teeth')
    # ---- 2. spec -> code: every modelled byte string is decoded by the implementation under the counter
    nbad = 0
    worst = 0.0
    limit = address_space_limit()
    limit.__enter__()
    for i, st in enumerate(all_states):
        T, le, d = st['T'], st['le'], bytes(st['d'])
        sg = hsig(T)
        b = bound(len(d), len(sg))
        out, calls, r = counted(lambda: marshal.unmarshal(sg, d, 0, le), 4 * b)
        worst = max(worst, calls / float(b))
        if out not in ('value', 'exception') or calls > b:
            nbad += 1
            if nbad <= 5:
                chk.violation('decode of %d bytes under %s: %s after %d calls (bound %d)' % (len(d), sg, out, calls, b),
                              dict(kind='spec->code', module='c05', sig=sg, data=list(d), le=le, outcome=out, calls=calls))
        chk.traces += 1
    chk.notes['worst_calls_over_bound_model_cases'] = round(worst, 3)
    chk.sample({'model_case': {'sig': hsig(all_states[-1]['T']), 'data': list(all_states[-1]['d'])}})
    # ---- 3. code -> spec: mutated real messages and hostile signatures, judged by AcceptableWork in TLC
    recs = []
    descr = []
    iso = []
    for raw in corpus(rng):
        for name, data in mutations(rng, raw, thorough):
            nsig = 64
            b = bound(len(data), nsig)
            out, calls, r = counted(lambda: message.parseMessage(data, []), 4 * b)
            recs.append({'len': len(data), 'siglen': nsig, 'calls': calls, 'outcome': out, 'cpu_ms': 0, 'mem_kb': 0})
            descr.append((name, data))
            if len(recs) % 400 == 0:        # a valid message on "another connection", in between
                j = (len(recs) // 400) % len(valid)
                iso.append((j, len(recs), {'before': before[j], 'after': decode_valid(valid[j])}))
    for name, raw, nsig in hostile_messages(rng):
        b = bound(len(raw), nsig + 16)
        out, calls, r = counted(lambda: message.parseMessage(raw, []), 4 * b)
        recs.append({'len': len(raw), 'siglen': nsig + 16, 'calls': calls, 'outcome': out, 'cpu_ms': 0, 'mem_kb': 0})
        descr.append((name, raw))
    # the same header lies handed to a CONNECTION (framing, descriptor bookkeeping and dispatch included), not only to
    # the parser: a client that is told of descriptors it never received
    for name, raw, nsig in count_lies():
        try:
            conn_, t_, _f = fakes.ready_client()
        except Exception as ex:
            # bringing a fresh connection up involves nothing but valid bytes: if that fails now, earlier hostile input
            # left something behind in the process
            chk.violation('after hostile inputs were decoded in this process a new connection cannot be brought up: %s: %s' % (
                type(ex).__name__, str(ex)[:80]), dict(kind='code->spec isolation', module='c05', trace=core.traceback_str()[-600:]))
            break
        b = bound(len(raw), nsig + 16)
        out, calls, r = counted(lambda: conn_.dataReceived(raw), 8 * b)
        recs.append({'len': len(raw), 'siglen': nsig + 16, 'calls': calls // 2, 'outcome': out, 'cpu_ms': 0, 'mem_kb': 0})
        descr.append(('to a connection: ' + name, raw))
    for j in range(len(valid)):
        iso.append((j, len(recs), {'before': before[j], 'after': decode_valid(valid[j])}))
    # ... also when the hostile message is the FIRST of its signature this process sees: its body stops after the first
    # value; the valid message of the same signature that follows (on "another connection") decodes to what was sent
    import hashlib
    flds = [('path', '/a'), ('interface', 'a.b'), ('member', 'S')]
    for j, (sg, vals) in enumerate([('snqs', ['x', -7, 7, 'y']), ('sxts', ['a', -9, 9, 'b']), ('syyns', ['c', 1, 2, -3, 'd']),
                                    ('sqqqs', ['e', 1, 2, 3, 'f']), ('s(ny)s', ['g', [-4, 5], 'h']), ('saqs', ['i', [1, 2], 'j'])]):
        cut = refwire.msg(4, 98, flds, sg, None, body_raw=refwire.enc('s', [vals[0]], 0, True))
        counted(lambda: message.parseMessage(cut, []), 4 * bound(len(cut), 64))
        good = refwire.msg(4, 99, flds, sg, vals)
        want = {'outcome': 'value', 'digest': hashlib.sha1(repr((4, 99, sg, vals)).encode()).hexdigest()[:12]}
        iso.append((100 + j, len(recs), {'before': want, 'after': decode_valid(good)}))
    limit.__exit__()
    # work inside single C calls is invisible to the call counter: the sibling-container family (and the
    # hostile signatures above) is decoded again in a child process under a CPU limit, CPU time recorded
    cc_cases = cpu_cases() + hostile_messages(rng) + count_lies() + array_lies(rng)
    sc = scaling_cases()
    crecs = run_cpu_child(cc_cases + sc)
    if len(crecs) == len(cc_cases) + len(sc):
        small, big = crecs[-2], crecs[-1]
        scal = {'small_len': small['len'], 'small_ms': small['cpu_ms'], 'big_len': big['len'], 'big_ms': big['cpu_ms'],
                'outcome': big['outcome']}
        chk.notes['scaling'] = scal
        rej, stt = core.validate_traces('MC_Decoder', OBS, [[({'n': 'Init'}, {'rec': scal})]], {},
                                        cfg_consts='CONSTANTS\n MaxLen = 1\n Alphabet = {0}\n ZeroOK = FALSE\n Fuel = 10\n',
                                        initpred='Dummy /\\ TraceScaling', nproc=1)
        if rej:
            chk.violation('decoding does not scale with the length: %d bytes in %d ms, %d bytes in %d ms' % (
                small['len'], small['cpu_ms'], big['len'], big['cpu_ms']), dict(kind='code->spec scaling', module='c05', rec=scal))
        crecs = crecs[:-2] + [dict(small), dict(big)]
    chk.notes['cpu_timed_inputs'] = len(crecs)
    chk.notes['worst_cpu_ms'] = max(r['cpu_ms'] for r in crecs)
    chk.notes['worst_mem_kb'] = max(r['mem_kb'] for r in crecs)
    recs.extend(crecs)
    descr.extend((n_, raw_) for n_, raw_, _ in cc_cases[:len(crecs)])
    traces = [[({'n': 'Init'}, {'rec': r})] for r in recs]
    cc = 'CONSTANTS\n MaxLen = 1\n Alphabet = {0}\n ZeroOK = FALSE\n Fuel = 10\n'
    rej, stt = core.validate_traces('MC_Decoder', OBS, traces, {}, cfg_consts=cc, initpred='Dummy /\\ TraceWork', nproc=8)
    chk.states += stt['states']
    chk.transitions += stt['transitions']
    chk.traces += len(traces) - len(rej)
    chk.notes['mutated_inputs'] = len(recs)
    chk.notes['worst_calls_over_bound_mutations'] = round(max(r['calls'] / float(bound(r['len'], r['siglen'])) for r in recs), 3)
    for ti, _, _ in rej[:5]:
        name, data = descr[ti]
        chk.violation('hostile input (%s, %d bytes): %s after %d calls, %d ms CPU' % (
            name, len(data), recs[ti]['outcome'], recs[ti]['calls'], recs[ti]['cpu_ms']) + ', %d KB allocated' % recs[ti]['mem_kb'],
                      dict(kind='code->spec', module='c05', mutation=name, data=list(data[:400]), rec=recs[ti]))
    chk.sample({'mutation': descr[len(descr) // 2][0], 'rec': recs[len(descr) // 2]})
    # isolation: hostile inputs leave nothing behind that changes how valid messages decode
    itr = [[({'n': 'Init'}, {'rec': r})] for _, _, r in iso]
    rej, stt = core.validate_traces('MC_Decoder', OBS, itr, {}, cfg_consts=cc, initpred='Dummy /\\ TraceIsolated', nproc=2)
    chk.states += stt['states']
    chk.transitions += stt['transitions']
    chk.notes['isolation_probes'] = len(iso)
    for ti, _, _ in rej[:3]:
        j, after_n, r = iso[ti]
        chk.violation('valid message %d decodes differently after %d hostile inputs were decoded in the same process: %r -> %r' % (
            j, after_n, r['before'], r['after']), dict(kind='code->spec isolation', module='c05', rec=r, after_hostile_inputs=after_n))
    # copying: bytes produced by slicing the input while decoding stay proportional to its length
    cw = []
    for name, raw, _ in scaling_cases()[:1] + [('strings', refwire.msg(4, 95, [('path', '/a'), ('interface', 'a.b'), ('member', 'S')], 'asa{ss}',
                                                           [['s%d' % i for i in range(2000)], [('k%d' % i, 'v') for i in range(1000)]]), 7),
                                               ('nested', refwire.msg(4, 94, [('path', '/a'), ('interface', 'a.b'), ('member', 'S')], 'aaay',
                                                          [[[[i % 200] * 3 for i in range(40)] for _ in range(40)]]), 4)]:
        r = copy_work(raw)
        cw.append((name, r))
    rej, stt = core.validate_traces('MC_Decoder', OBS, [[({'n': 'Init'}, {'rec': r})] for _, r in cw], {},
                                    cfg_consts='CONSTANTS\n MaxLen = 1\n Alphabet = {0}\n ZeroOK = FALSE\n Fuel = 10\n',
                                    initpred='Dummy /\\ TraceCopy', nproc=1)
    chk.notes['copied_per_input_byte'] = {n: round(r['copied'] / float(r['len']), 2) for n, r in cw}
    for ti, _, _ in rej[:2]:
        n, r = cw[ti]
        chk.violation('decoding %s (%d bytes) copied %d bytes by slicing its input' % (n, r['len'], r['copied']),
                      dict(kind='code->spec copying', module='c05', rec=r))
    bus_isolation(chk, rng, thorough)
    # ---- canary
    bad = dict(recs[0], outcome='budget', mem_kb=0)
    rej, _ = core.validate_traces('MC_Decoder', OBS, [[({'n': 'Init'}, {'rec': bad})]], {}, cfg_consts=cc,
                                  initpred='Dummy /\\ TraceWork', nproc=1)
    chk.canary = {'what': 'a recorded decode relabelled as having exhausted its budget', 'rejected': bool(rej)}
    chk.assumptions = ['work is measured in interpreter call events (Python + C), at most %d per abstract decoding '
                       'step plus %d; work inside one C call is measured as CPU time of a child process (at most 5 ms per '
                       'abstract step plus 1 s; the child is killed after %d s of CPU)' % (CALLS_PER_STEP, SLACK, CPU_LIMIT),
                       'any Python exception is an acceptable rejection (Twisted closes that connection only)',
                       'memory is bounded indirectly: every appended element is a counted step']
    return chk.finish(
        rule='TLC decodes every byte string up to the bound over a small alphabet under hostile types (Bounded, '
             'InData; the ZeroOK deviation must violate Bounded); the implementation decodes the same inputs and '
             'every truncation / bit flip / length lie of a message corpus plus grammar-directed hostile signatures '
             'under a call counter, and grammar-directed sibling-container signatures in a CPU-limited child process; TLC '
             'judges the recorded work (calls, CPU time) against the linear bound; valid messages are decoded again in '
             'between and afterwards and must decode as before (isolation)',
        exhaustive=False)
