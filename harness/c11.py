"""C11 - a call through a proxy reaches the remote method and returns what it returned.
Spec: spec/EndToEnd.tla.  Driver: real DBusClientConnections attached to a real Bus over in-memory links
(fakes.BusNet); a TLC behaviour is the delivery schedule."""
import random

from . import core, tlc, fakes
from .tlaval import to_tla

from txdbus import objects, interface, error

ACTIONS = {'ProxyCall': ('k',), 'Deliver': ('l', 'cnt', 'p')}
OBS = ['q', 'part', 'state', 'ran', 'wrongarg', 'done']
LINKS = ['a2b', 'b2a', 'x2b', 'b2x']
METHODS = ['Table', 'Echo', 'Pair', 'Words']


class SrvError(Exception):
    # the DBus name is set on the instance (as txdbus.bus.DError does), not on the class
    def __init__(self, text):
        Exception.__init__(self, text)
        self.dbusErrorName = 'org.ex.SrvError'


def other_echo_known(yes):
    """the process also knows an interface called org.ex.Echo with OTHER declarations (registered globally): a proxy built
    from the interface object the caller passes uses that object.  (Not with introspected proxies: those reuse known
    interfaces by design - C15.)"""
    ki = interface.DBusInterface.knownInterfaces
    ki.pop('org.ex.Echo', None)
    if yes:
        interface.DBusInterface('org.ex.Echo', interface.Method('Echo', arguments='i', returns='i'),
                                interface.Method('Table', arguments='', returns='s'))


def misfit(arg):
    """calls in Raises with an even id do not raise: their method returns a value that does not fit the declared
    return signature - the caller must still get an error, not silence"""
    return int(arg[3:]) % 2 == 0


BAD = {'Echo': ['r', 'not a struct'], 'Words': 7, 'Pair': ('only-one',), 'Table': 'not an array'}


IFACE = interface.DBusInterface('org.ex.Echo', interface.Method('Echo', arguments='sa{sv}', returns='s(is)'),
                                interface.Method('Words', arguments='sa{sv}', returns='as'),
                                interface.Method('Pair', arguments='sa{sv}', returns='(ss)'),
                                interface.Method('Table', arguments='sa{sv}', returns='a(si)'), noRegister=True)

OTHER = interface.DBusInterface('org.ex.Other', interface.Method('Pair', arguments='sa{sv}', returns='(ss)'),
                                interface.Method('Words', arguments='sa{sv}', returns='as'), noRegister=True)


# an older declaration of org.ex.Echo, listed by the base class: the derived class's fuller declaration of the same
# name is the one calls are dispatched with, so it is the one introspection has to describe
IFACE_V1 = interface.DBusInterface('org.ex.Echo', interface.Method('Echo', arguments='sa{sv}', returns='s(is)'), noRegister=True)


class SrvBase(objects.DBusObject):
    dbusInterfaces = [IFACE_V1]

    # org.ex.Echo's members are bound by decorator partly here and partly in the subclass
    @objects.dbusMethod('org.ex.Echo', 'Words')
    def echo_words(self, s, extra):           # one array, holding exactly one element
        self.log.append((s, extra))
        if self._bad(s, 'Words'):
            return BAD['Words']
        return ['w:' + s]


class Srv(SrvBase):
    """ONE class for the exported object and for the decoys other clients export at the same path: what a call
    runs and logs must be the instance it was addressed to."""
    # the same members are also declared on an interface listed FIRST: a call that names
    # org.ex.Echo must still reach the org.ex.Echo implementation
    dbusInterfaces = [OTHER, IFACE]

    def __init__(self, path, raises, log):
        objects.DBusObject.__init__(self, path)
        self.raises = raises
        self.log = log

    @objects.dbusMethod('org.ex.Other', 'Pair')
    def other_pair(self, s, extra):
        self.log.append(('OTHER', s))
        return ('other', 'x')

    @objects.dbusMethod('org.ex.Other', 'Words')
    def other_words(self, s, extra):
        self.log.append(('OTHER', s))
        return ['other']

    def _bad(self, s, name):
        if s in self.raises:
            if misfit(s):
                return True
            raise SrvError('boom:' + s)
        return False

    def dbus_Echo(self, s, extra):
        self.log.append((s, extra))
        if self._bad(s, 'Echo'):
            return BAD['Echo']
        return ['r:' + s, (len(extra), 'é' + s)]

    def dbus_Table(self, s, extra):           # one value that is not a struct but holds structs
        self.log.append((s, extra))
        if self._bad(s, 'Table'):
            return BAD['Table']
        return [('t:' + s, 1), ('u', 2)]

    @objects.dbusMethod('org.ex.Echo', 'Pair')
    def echo_pair(self, s, extra):            # one struct
        self.log.append((s, extra))
        if self._bad(s, 'Pair'):
            return BAD['Pair']
        return ('p:' + s, 'q')


def build_object(raises, log):
    return Srv('/obj', raises, log), IFACE


class E2EDriver:
    def __init__(self, calls, raises, introspect=False, unix=False, extra_clients=0):
        self.calls = list(calls)
        self.introspect = introspect
        other_echo_known(not introspect)
        self.raises = {'arg%d' % k for k in raises}
        self.shift = 0 if not introspect else (2 if unix else 3)      # which methods the calls use
        self.net = fakes.BusNet(unix=unix)
        self.a = self.net.add_client()
        self.x = self.net.add_client()
        for _ in range(extra_clients):
            self.net.add_client()
        self.net.run()
        assert self.net.ready(self.a) and self.net.ready(self.x), 'clients did not reach the bus'
        ca, cx = self.net.clients[self.a][0], self.net.clients[self.x][0]
        self.runs = []
        self.decoy_runs = []
        obj, iface = build_object(self.raises, self.runs)
        cx.exportObject(obj)
        # every other client on the bus (the caller included) exports an object of its own at the same path
        for ci, cl in enumerate(self.net.clients):
            if ci != self.x:
                cl[0].exportObject(build_object(self.raises, self.decoy_runs)[0])
        res = []
        cx.requestBusName('org.ex.Srv').addBoth(res.append)
        self.net.run()
        assert res == [1], res
        got = []
        if introspect:
            # the caller already holds an introspected proxy for the object another client exports at the same path
            dec = [ci for ci in range(len(self.net.clients)) if ci != self.x][-1]
            r2 = []
            self.net.clients[dec][0].requestBusName('org.ex.Decoy').addBoth(r2.append)
            self.net.run()
            assert r2 == [1], r2
            keep = []
            ca.getRemoteObject('org.ex.Decoy', '/obj').addBoth(keep.append)
            self.net.run()
            assert keep and isinstance(keep[0], objects.RemoteDBusObject), keep
            self.decoy_proxy = keep[0]
        if introspect and unix:
            # the caller names the interfaces it needs; one of them it knows with OTHER (older) declarations, the other
            # not at all, and it asks for known interfaces to be replaced: the proxy uses what the exporter declares
            other_echo_known(True)
            interface.DBusInterface.knownInterfaces.pop('org.ex.Other', None)
            ca.getRemoteObject('org.ex.Srv', '/obj', interfaces=['org.ex.Echo', 'org.ex.Other'],
                               replaceKnownInterfaces=True).addBoth(got.append)
            # ... while a second, ordinary introspection (no replacement asked for) is in flight on the same connection
            self.also = []
            ca.getRemoteObject('org.ex.Srv', '/obj').addBoth(self.also.append)
        elif introspect:
            ca.getRemoteObject('org.ex.Srv', '/obj').addBoth(got.append)
        else:
            ca.getRemoteObject('org.ex.Srv', '/obj', interfaces=[iface]).addBoth(got.append)
        self.net.run()
        assert got and isinstance(got[0], objects.RemoteDBusObject), got
        self.proxy = got[0]
        self.link = {'a2b': self.net.clients[self.a][1], 'b2a': self.net.clients[self.a][3],
                     'x2b': self.net.clients[self.x][1], 'b2x': self.net.clients[self.x][3]}
        self.dst = {'a2b': self.net.clients[self.a][2], 'b2a': ca, 'x2b': self.net.clients[self.x][2], 'b2x': cx}
        for t in self.link.values():
            assert not t.queue
        self.shadow = {l: [] for l in LINKS}     # [(kind, k, remaining bytes)]
        self.part = {l: False for l in LINKS}
        self.seen = {l: len(self.link[l].log) for l in LINKS}
        self.serial = {}
        self.results = {k: [] for k in self.calls}
        self.state = {k: 'new' for k in self.calls}

    def _absorb(self):
        """note the messages newly written to each link (identity by argument / reply serial)"""
        for l in LINKS:
            t = self.link[l]
            for e in t.log[self.seen[l]:]:
                if e[0] != 'bytes':
                    continue
                for raw in fakes.split_messages(e[1]):
                    from txdbus import message
                    m = message.parseMessage(raw, [])
                    if m._messageType == 1:
                        arg = m.body[0] if m.body else '?'
                        k = int(arg[3:]) if isinstance(arg, str) and arg.startswith('arg') and arg[3:].isdigit() else -1
                        self.serial[m.serial] = k
                        self.shadow[l].append(['call', k, len(raw)])
                    elif m._messageType in (2, 3):
                        k = self.serial.get(m.reply_serial, -1)
                        self.shadow[l].append(['return' if m._messageType == 2 else 'error', k, len(raw)])
                    else:
                        self.shadow[l].append(['other', -1, len(raw)])
            self.seen[l] = len(t.log)

    def apply(self, name, args):
        if name == 'ProxyCall':
            k = args[0]
            self.state[k] = 'called'
            kw = {'interface': 'org.ex.Echo'} if self.introspect else {}     # an explicit proxy only knows org.ex.Echo
            d = self.proxy.callRemote(self.method(k), 'arg%d' % k, {'k': k, 'why': 'x' * (k % 3)}, **kw)
            d.addCallbacks(lambda v, k=k: self._res(k, ('value', v)), lambda f, k=k: self._res(k, ('error', f)))
        else:
            l, n, p = args
            sh = self.shadow[l]
            nbytes = sum(x[2] for x in sh[:n])
            if p:
                nxt = sh[n][2]
                cut = max(1, nxt // 2) if nxt > 1 else 1
                if cut >= nxt:
                    cut = nxt - 1
                nbytes += cut
            kind, i = ('c2b', self.a) if l == 'a2b' else ('b2c', self.a) if l == 'b2a' else ('c2b', self.x) if l == 'x2b' else ('b2c', self.x)
            self.net.deliver((kind, i), nbytes)
            del sh[:n]
            if p:
                sh[0][2] -= cut
                self.part[l] = True
            elif n > 0:
                self.part[l] = False
        self._absorb()

    def method(self, k):
        return METHODS[(k + self.shift) % 4]

    def _res(self, k, r):
        self.results[k].append(r)
        self.state[k] = 'done'

    def project(self):
        done = []
        for k in self.calls:
            rs = self.results[k]
            if not rs:
                done.append('none')
            elif len(rs) > 1:
                done.append('wrong')
            else:
                kind, v = rs[0]
                arg = 'arg%d' % k
                want = {'Echo': ['r:' + arg, [2, 'é' + arg]], 'Words': ['w:' + arg], 'Pair': [['p:' + arg, 'q']],
                        'Table': [['t:' + arg, 1], ['u', 2]]}[self.method(k)]
                if kind == 'value' and v == want:
                    done.append('value')
                elif kind == 'error' and isinstance(v.value, error.RemoteError) and not misfit(arg) and \
                        v.value.errName == 'org.ex.SrvError' and v.value.message == 'boom:' + arg:
                    done.append('error')
                elif kind == 'error' and isinstance(v.value, error.RemoteError) and misfit(arg) and arg in self.raises and \
                        v.value.errName.startswith('org.txdbus.PythonException.'):
                    done.append('error')
                else:
                    done.append('wrong')
        ran = []
        wrong = 0
        for k in self.calls:
            ran.append(sum(1 for s, e in self.runs if s == 'arg%d' % k and e == {'k': k, 'why': 'x' * (k % 3)}))
        wrong = len(self.runs) - sum(ran) + len(self.decoy_runs)
        from .tlaval import FnDict
        return {'q': FnDict({l: tuple({'kind': x[0], 'k': x[1]} for x in self.shadow[l]) for l in LINKS}),
                'part': FnDict({l: self.part[l] for l in LINKS}),
                'state': tuple(self.state[k] for k in self.calls), 'ran': tuple(ran), 'wrongarg': wrong, 'done': tuple(done)}


def make_driver(params, acts):
    return E2EDriver(range(1, params['ncalls'] + 1), params['raises'], params.get('introspect', False), params.get('unix', False),
                     params.get('extra', 0))


replay_file = core.replay_file


def cfg(ncalls, raises, spec='Spec', live=False):
    s = 'SPECIFICATION %s\n' % spec if spec else ''
    s += 'CONSTANTS\n Calls = {%s}\n Raises = {%s}\n' % (', '.join(map(str, range(1, ncalls + 1))), ', '.join(map(str, raises)))
    if spec:
        s += 'INVARIANT RunsOnce\nINVARIANT ResultEqual\nINVARIANT DoneImpliesRan\n'
        if live:
            s += 'PROPERTY AllComplete\n'
        s += 'CHECK_DEADLOCK FALSE\n'
    return s


def trace_cfg(params):
    return cfg(params['ncalls'], params['raises'], spec=None)


def rerecord(params, acts):
    drv = make_driver(params, acts)
    tr = [({'n': 'Init'}, drv.project())]
    for n, a in acts:
        drv.apply(n, a)
        rec = {'n': n}
        rec.update(dict(zip(ACTIONS[n], a)))
        tr.append((rec, drv.project()))
    return tr


def random_schedule(rng, params, steps):
    drv = make_driver(params, None)
    tr = [({'n': 'Init'}, drv.project())]
    new = list(range(1, params['ncalls'] + 1))
    for _ in range(steps):
        choices = [l for l in LINKS if drv.shadow[l]]
        if new and (not choices or rng.random() < 0.3):
            k = new.pop(rng.randrange(len(new)))
            a = ('ProxyCall', (k,))
        elif choices:
            l = rng.choice(choices)
            sh = drv.shadow[l]
            n = rng.randint(0, len(sh))
            p = n < len(sh) and (n > 0 or not drv.part[l]) and sh[n][2] > 1 and rng.random() < 0.5
            if n == 0 and not p:
                n = 1
            a = ('Deliver', (l, n, p))
        else:
            break
        drv.apply(*a)
        rec = {'n': a[0]}
        rec.update(dict(zip(ACTIONS[a[0]], a[1])))
        tr.append((rec, drv.project()))
    return tr


def run(tier, seed):
    chk = core.Check('C11', tier, seed)
    rng = random.Random(seed)
    thorough = tier == 'thorough'
    # liveness + safety on the design, then exhaustive replay of the delivery interleavings
    for ncalls, raises in ((2, [2]), (1, [])) + (((3, [1]),) if thorough else ()):
        res, _ = tlc.run('EndToEnd', 'e.cfg', extra={'e.cfg': cfg(ncalls, raises, 'FairSpec', live=True)}, timeout=1500)
        chk.tlc_stats(res, 'EndToEnd %d calls (liveness under fair delivery)' % ncalls)
        if not res.ok:
            chk.violation('model: EndToEnd liveness %s %s' % res.violation, dict(kind='TLC', trace=repr(res.trace[-3:])))
    for ncalls, raises, intro, unix in ((3, [2], False, False), (2, [1], True, True), (1, [], True, False)):
        params = {'ncalls': ncalls, 'raises': raises, 'introspect': intro, 'unix': unix}
        res, g = tlc.dump_graph('EndToEnd', 'e.cfg', extra={'e.cfg': cfg(ncalls, raises)}, timeout=900)
        chk.tlc_stats(res, 'EndToEnd %d calls raises=%r' % (ncalls, raises))
        if not res.ok:
            chk.violation('model: EndToEnd %s %s' % res.violation, dict(kind='TLC', trace=repr(res.trace[-3:])))
        chk.notes['graph %d calls' % ncalls] = [len(g.nodes), g.nedges]
        label = '%d calls %s %s' % (ncalls, 'introspected' if intro else 'explicit', 'unix' if unix else 'tcp')
        paths = list(core.edge_cover_paths(g))
        if len(paths) > (20000 if thorough else 1500):
            paths = rng.sample(paths, 20000 if thorough else 1500)
        core.replay_paths(chk, g, paths, lambda a, p=params: make_driver(p, a), label + ' edges', 'c11', params)
        core.replay_paths(chk, g, list(core.random_walks(g, 2000 if thorough else 250, 16, rng)), lambda a, p=params: make_driver(p, a),
                          label + ' walks', 'c11', params)
    # code -> spec: 3 concurrent calls, 2-4 clients on the bus, random schedules with arbitrary splitting
    for ncalls, extra, intro, unix in ((3, 0, True, False), (3, 2, False, True)):
        params = {'ncalls': ncalls, 'raises': [2], 'introspect': intro, 'unix': unix, 'extra': extra}
        batch = []
        for _ in range(150 if thorough else 30):
            try:
                batch.append(random_schedule(rng, params, 60))
            except Exception:
                chk.violation('recording: implementation raised', dict(kind='exception', module='c11', trace=core.traceback_str()))
                break
        core.validate_and_report(chk, 'EndToEnd', OBS, ACTIONS, batch, trace_cfg(params), ['RunsOnce', 'ResultEqual', 'DoneImpliesRan'],
                                 'c11', params, 'random %d calls %d clients' % (ncalls, 2 + extra), nproc=6)
        # every recorded schedule that delivered everything must have completed every call
        for tr in batch:
            st = tr[-1][1]
            if all(not v for v in st['q'].values()) and all(s != 'new' for s in st['state']) and any(d == 'none' for d in st['done']):
                chk.violation('a call never completed although every byte was delivered', dict(kind='liveness', module='c11',
                                                                                               final=repr(st)))
    chk.sample({'recorded': [a for a, s in batch[0]][:8]})
    def mutate(tr):
        tr = [list(x) for x in tr]
        for j in range(len(tr) - 1, 0, -1):
            if any(d != 'none' for d in tr[j][1]['done']):
                d = list(tr[j][1]['done'])
                i = [k for k, v in enumerate(d) if v != 'none'][0]
                d[i] = 'value' if d[i] == 'error' else 'error'
                tr[j] = (tr[j][0], dict(tr[j][1], done=tuple(d)))
                return [tuple(x) for x in tr]
        return None
    bad = core.pick_canary(batch, mutate)
    rej = []
    if bad is not None:
        rej, _ = core.validate_traces('EndToEnd', OBS, [bad], ACTIONS, cfg_consts=trace_cfg(params), nproc=1)
    chk.canary = {'what': 'the outcome of one completed call swapped between value and error', 'rejected': bool(rej) or bad is None, 'applied': bad is not None}
    chk.assumptions = ['clients and bus are the real objects joined by in-memory byte links; connection setup (handshake, Hello, '
                       'RequestName, proxy creation with explicit or introspected interfaces) runs to quiescence before the modelled part',
                       'values are one fixed shape per call (string + a{sv} in, string + struct out); value fidelity is C01/C02',
                       'a prefix delivery hands over half of the next message',
                       'calls in Raises with an even id return a value that does not fit the declared signature instead of raising '
                       '(the caller must get a RemoteError org.txdbus.PythonException.*); every client other than the exporter '
                       'exports a decoy object at the same path']
    return chk.finish(
        rule='TLC checks safety and, under fair delivery, completion of 1-2 (3) concurrent calls over all delivery interleavings with '
             'read splitting and coalescing on the four links; every edge and random walks of the graph are replayed on real '
             'clients and a real bus (explicit and introspected proxies, UNIX and non-UNIX transports); random schedules with 3 '
             'concurrent calls and 2-4 clients are validated by TLC',
        exhaustive=True)
