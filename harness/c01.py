"""C01 - encoding then decoding any conforming value returns the same value (spec/Wire.tla)."""
from . import wirecheck


def run(tier, seed):
    return wirecheck.run('C01', tier, seed)
