"""Driver for spec/Bus.tla: a real txdbus.bus.Bus with one real BusProtocol per connection slot over
MemoryTransports; scripted clients send real message bytes; everything the bus writes to each
connection is parsed and projected to the message records of the specification."""
from twisted.internet.protocol import Factory

from . import fakes, refwire
from .tlaval import FnDict

import txdbus.bus
from txdbus import message

ACTIONS = {'Hello': ('c',), 'BadFirst': ('c',), 'Disconnect': ('c',),
           'RequestName': ('c', 'nm', 'al', 'rp', 'nq'), 'ReleaseName': ('c', 'nm'), 'GetNameOwner': ('c', 'nm'),
           'ListQueued': ('c', 'nm'), 'GetUniqueOwner': ('c', 'k'), 'Send': ('c', 'dest', 'kind', 'forged'),
           'ToBus': ('c', 'what'), 'AddMatch': ('c', 'r'), 'RemoveMatch': ('c', 'r'), 'Emit': ('c', 's')}
BUS = 'org.freedesktop.DBus'
BPATH = '/org/freedesktop/DBus'
RULETEXT = {'R1': "type='signal',member='Sig1'", 'R2': "type='signal'", 'R3': "interface='org.ex.I2'",
            'R4': "type='signal',path_namespace='/sig/a'", 'R5': "type='method_call'", 'R6': "path='/org/freedesktop/DBus'",
            'R7': "path_namespace='/'",
            # two argument constraints: both must hold
            'R8': "arg0='S3',arg1='tail'"}
SIGS = {'S1': ('/sig/a/x', 'org.ex.I1', 'Sig1'), 'S2': ('/sig/b', 'org.ex.I2', 'Sig2'), 'S3': ('/sig/ab', 'org.ex.I1', 'Sig3')}
# which signals each rule matches (NOC = NameOwnerChanged emitted by the bus)
MATCH = {'R1': {'S1'}, 'R2': {'S1', 'S2', 'S3', 'NOC'}, 'R3': {'S2'}, 'R4': {'S1'}, 'R5': set(), 'R6': {'NOC'}, 'R7': {'S1', 'S2', 'S3', 'NOC'}, 'R8': {'S3'}}


# samples of what the bus wrote, for the byte-level judgement by Message.tla (C14):
#   FORWARDED: key -> (bytes the originator sent, bytes the bus delivered, unique name of the originator)
#   ORIGINATED: key -> bytes of a message the bus itself produced (replies, NameAcquired, ...)
FORWARDED = {}
ORIGINATED = {}


def name_str(n):
    return 'org.ex.N%d' % n


def uid_of(s):
    if isinstance(s, str) and s.startswith(':1.'):
        try:
            return int(s[3:])
        except ValueError:
            return -1
    return -1 if s else 0


# stateless calls to the bus (Bus.tla, BusCalls): member, signature, body, path, interface
BUSCALLS = {
    'NotImplemented': ('ListActivatableNames', None, None, BPATH, BUS),
    'WrongArgs': ('RequestName', 's', [name_str(1)], BPATH, BUS),
    'OtherPath': ('GetId', None, None, '/org/freedesktop/DBus/x', BUS),
    'OtherIface': ('GetId', None, None, BPATH, 'org.freedesktop.DBus.Monitoring'),
    'Ping': ('Ping', None, None, BPATH, 'org.freedesktop.DBus.Peer'),
    'ReservedName': ('RequestName', 'su', [':1.1', 0], BPATH, BUS),
    'OwnBusName': ('RequestName', 'su', [BUS, 4], BPATH, BUS),
    'UserOfSelf': ('GetConnectionUnixUser', 's', None, BPATH, BUS),
    'UserOfNobody': ('GetConnectionUnixUser', 's', ['org.ex.Nobody'], BPATH, BUS),
}


class BusDriver:
    def __init__(self, clients):
        fakes.install_clock()
        self.bus = txdbus.bus.Bus()
        self.fac = Factory()
        self.fac.protocol = txdbus.bus.BusProtocol
        self.fac.bus = self.bus
        self.slots = list(clients)
        self.p = {c: None for c in self.slots}
        self.t = {c: None for c in self.slots}
        self.pos = {c: 0 for c in self.slots}
        self.closed_seen = {c: False for c in self.slots}
        self.serial = 1000
        self.sent = {}           # serial -> (slot, description of the request / forwarded message)
        self.cur = None
        self.uid = {c: 0 for c in self.slots}

    # -- plumbing
    def _connect(self, c):
        t = fakes.MemoryTransport()
        p = self.fac.buildProtocol(None)
        self.p[c], self.t[c] = p, t
        self.pos[c] = 0
        self.closed_seen[c] = False
        p.makeConnection(t)
        p.dataReceived(b'\0AUTH ANONYMOUS\r\nBEGIN\r\n')
        assert t.take().startswith(b'OK '), 'bus refused ANONYMOUS'
        self.pos[c] = len(t.log)

    def _raw(self, c, mtype, fields, sig=None, body=None, flags=0, le=True, descr=None):
        self.serial += 1
        raw = refwire.msg(mtype, self.serial, fields, sig, body, flags=flags, le=le)
        self.sent[self.serial] = (c, descr, raw)
        return self.serial, raw

    def _call_bus(self, c, member, sig=None, body=None, path=BPATH, iface=BUS):
        s, raw = self._raw(c, 1, [('path', path), ('interface', iface), ('member', member), ('destination', BUS)], sig, body,
                           descr=('bus', member))
        self.cur = (c, s, member)
        self.p[c].dataReceived(raw)

    def apply(self, name, args):
        self.cur = None
        for c in self.slots:
            if self.t[c] is not None:
                self.pos[c] = len(self.t[c].log)
        getattr(self, 'do_' + name)(*args)

    def do_Hello(self, c):
        self._connect(c)
        self._call_bus(c, 'Hello')

    def do_BadFirst(self, c):
        self._connect(c)
        s, raw = self._raw(c, 1, [('path', '/p'), ('interface', 'org.ex.I1'), ('member', 'M'), ('destination', name_str(1))],
                           descr=('first', None))
        self.p[c].dataReceived(raw)
        # the transport closes
        if self.t[c].disconnecting:
            self.p[c].connectionLost(fakes.conn_done())
        self._gone = c

    def do_Disconnect(self, c):
        self.p[c].connectionLost(fakes.conn_done())
        self.p[c] = None
        self.t[c] = None
        self.uid[c] = 0

    def do_RequestName(self, c, n, al, rp, nq):
        self._call_bus(c, 'RequestName', 'su', [name_str(n), (1 if al else 0) | (2 if rp else 0) | (4 if nq else 0)])

    def do_ReleaseName(self, c, n):
        self._call_bus(c, 'ReleaseName', 's', [name_str(n)])

    def do_GetNameOwner(self, c, n):
        self._call_bus(c, 'GetNameOwner', 's', [name_str(n)])

    def do_GetUniqueOwner(self, c, k):
        self._call_bus(c, 'GetNameOwner', 's', [':1.%d' % k])

    def do_ListQueued(self, c, n):
        self._call_bus(c, 'ListQueuedOwners', 's', [name_str(n)])

    def do_ToBus(self, c, what):
        if what == 'SignalToBus':
            s, raw = self._raw(c, 4, [('path', '/p'), ('interface', 'org.ex.I1'), ('member', 'Sig1'), ('destination', BUS)], 's', ['S1'],
                               descr=('tobus', what))
            self.p[c].dataReceived(raw)
            return
        if what in BUSCALLS:
            member, sig, body, path, iface = BUSCALLS[what]
            if what == 'UserOfSelf':
                body = [':1.%d' % self.uid[c]]
            return self._call_bus(c, member, sig, body, path, iface)
        member = {'GetId': 'GetId', 'HelloAgain': 'Hello', 'NoSuchMethod': 'Frobnicate'}[what]
        self._call_bus(c, member)

    def do_AddMatch(self, c, r):
        self._call_bus(c, 'AddMatch', 's', [RULETEXT[r]])

    def do_RemoveMatch(self, c, r):
        self._call_bus(c, 'RemoveMatch', 's', [RULETEXT[r]])

    def do_Send(self, c, dest, kind, forged):
        d = name_str(dest[1]) if dest[0] == 'n' else ':1.%d' % dest[1]
        extra = [('sender', ':1.99')] if forged else []
        le = (self.serial % 2 == 0)
        if kind == 'call':
            f = [('path', '/p/q'), ('interface', 'org.ex.I1'), ('member', 'Do'), ('destination', d)] + extra
            s, raw = self._raw(c, 1, f, 'siv', ['arg', self.serial, refwire.Variant('u', 4000000000)], flags=self.serial % 8, le=le,
                               descr=('fwd', kind, dest))
        elif kind == 'return':
            f = [('reply_serial', 4242), ('destination', d)] + extra
            s, raw = self._raw(c, 2, f, 'asa{sv}', [['r', 'é'], [('k', refwire.Variant('y', 7)), ('p', refwire.Variant('o', '/q'))]], le=le,
                               flags=self.serial % 8, descr=('fwd', kind, dest))
        elif kind == 'error':
            f = [('error_name', 'org.ex.Err'), ('reply_serial', 4243), ('destination', d)] + extra
            s, raw = self._raw(c, 3, f, 's', ['why'], le=le, flags=self.serial % 8, descr=('fwd', kind, dest))
        else:
            f = [('path', '/p'), ('interface', 'org.ex.I1'), ('member', 'Uni'), ('destination', d)] + extra
            s, raw = self._raw(c, 4, f, None, None, le=le, flags=self.serial % 8, descr=('fwd', kind, dest))
        self.p[c].dataReceived(raw)

    def do_Emit(self, c, s):
        path, iface, member = SIGS[s]
        ser, raw = self._raw(c, 4, [('path', path), ('interface', iface), ('member', member)], 'ss', [s, 'tail'], flags=self.serial % 8, descr=('emit', s))
        self.p[c].dataReceived(raw)

    # -- projection
    def classify(self, c, m):
        """model record of one message the bus wrote to slot c"""
        own = ':1.%d' % self.uid[c] if self.uid[c] else None
        if m._messageType == 2 and self.cur and m.reply_serial == self.cur[1] and self.cur[0] == c:
            member = self.cur[2]
            b = m.body[0] if m.body else None
            if member == 'Hello':
                k = uid_of(b)
                self.uid[c] = k
                return {'t': 'return', 'tag': 'Hello', 'v': k}
            if member in ('RequestName', 'ReleaseName'):
                return {'t': 'return', 'tag': member, 'v': b}
            if member == 'GetNameOwner':
                return {'t': 'return', 'tag': member, 'v': uid_of(b)}
            if member == 'ListQueuedOwners':
                return {'t': 'return', 'tag': member, 'v': tuple(uid_of(x) for x in b)}
            if member == 'GetId':
                return {'t': 'return', 'tag': member, 'v': 0 if (isinstance(b, str) and b) else -1}
            return {'t': 'return', 'tag': member if member != 'Frobnicate' else '?', 'v': 0 if not m.body else -1}
        if m._messageType == 3 and self.cur and m.reply_serial == self.cur[1] and self.cur[0] == c:
            n = m.error_name
            short = n.rsplit('.', 1)[-1] if n.startswith('org.freedesktop.DBus.Error.') else n
            return {'t': 'error', 'name': short}
        if m._messageType == 4 and m.interface == BUS and m.path == BPATH and m.sender in (None, BUS):
            def nidx(s):
                return int(s[len('org.ex.N'):]) if isinstance(s, str) and s.startswith('org.ex.N') else -1
            if m.member in ('NameAcquired', 'NameLost'):
                ok = m.destination == own
                return {'t': 'signal', 'member': m.member if ok else m.member + '(misaddressed)', 'name': nidx(m.body[0])}
            if m.member == 'NameOwnerChanged':
                return {'t': 'signal', 'member': m.member, 'name': nidx(m.body[0]), 'old': uid_of(m.body[1]), 'new': uid_of(m.body[2])}
        # anything else must be a message forwarded from another connection, unchanged except for the sender
        src = self.sent.get(m.serial)
        if src is None:
            return {'t': 'unexpected', 'what': repr((m._messageType, m.serial))}
        origin, descr, raw = src
        orig = message.parseMessage(raw, [])
        if self.uid.get(origin):
            key = (descr[0], descr[1] if len(descr) > 1 else None, raw[:1], raw[2], b':1.99' in raw)
            FORWARDED.setdefault(key, (raw, self._lastraw, ':1.%d' % self.uid[origin]))
        same = all(getattr(orig, a, None) == getattr(m, a, None) for a in
                   ('_messageType', 'serial', 'expectReply', 'autoStart', 'path', 'interface', 'member', 'error_name',
                    'reply_serial', 'destination', 'signature', 'body'))
        frm = uid_of(m.sender)
        if descr[0] == 'fwd':
            tag = descr[2] if same else ('?', 'content changed')
            return {'t': 'fwd', 'from': frm, 'kind': descr[1], 'tag': tuple(tag)}
        if descr[0] == 'emit':
            tag = ('b', descr[1]) if same else ('?', 'content changed')
            return {'t': 'fwd', 'from': frm, 'kind': 'signal', 'tag': tag}
        return {'t': 'fwd', 'from': frm, 'kind': '?' + str(descr[0]), 'tag': ('?', '?')}

    def project(self):
        out = {}
        for c in self.slots:
            t = self.t[c]
            msgs = []
            if t is None:
                out[c] = ()
                continue
            data = b''
            for e in t.log[self.pos[c]:]:
                if e[0] == 'bytes':
                    data += e[1]
                elif e[0] == 'write-after-close':
                    msgs.append({'t': 'write-after-close'})
            for raw in fakes.split_messages(data):
                self._lastraw = raw
                rec = self.classify(c, message.parseMessage(raw, []))
                if rec.get('t') in ('return', 'error', 'signal'):
                    ORIGINATED.setdefault((rec['t'], rec.get('tag') or rec.get('name') or rec.get('member'), len(raw)), raw)
                msgs.append(rec)
            if t.disconnecting and not self.closed_seen[c]:
                self.closed_seen[c] = True
                msgs.append({'t': 'close'})
            out[c] = tuple(msgs)
            self.pos[c] = len(t.log)
        g = getattr(self, '_gone', None)
        if g is not None:
            # a dropped first-call connection: the slot is free again
            self._gone = None
            self.p[g] = None
            self.t[g] = None
            self.uid[g] = 0
        return {'out': FnDict(out) if False else tuple(out[c] for c in self.slots)}


def rerecord_with(driver, acts):
    tr = [({'n': 'Init'}, driver.project())]
    for n, a in acts:
        driver.apply(n, a)
        rec = {'n': n}
        rec.update(dict(zip(ACTIONS[n], a)))
        tr.append((rec, driver.project()))
    return tr
