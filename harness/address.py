"""Part of C09: bus address lists (spec/Address.tla).  Every address list TLC generates is written out as the
string the DBus specification defines, handed to txdbus.endpoints.getDBusEndpoints, and what comes back (endpoint
class, path or host / port, in order) is compared with the model; the same records are judged by TLC (TraceAddr)."""
from twisted.internet.testing import MemoryReactorClock

from . import core, tlc
from .tlaval import to_tla

from txdbus import endpoints

OBS = ['addr', 'want']
ESC = {' ': '%20', '-': '%2d', '/': '%2f', ';': '%3b', ',': '%2c', '=': '%3d'}


def value_text(v):
    return ''.join(ESC[t[1]] if len(t) == 2 else t[0] for t in v)


def addr_text(addr):
    out = []
    for e in addr:
        kv = ','.join('%s=%s' % (k, value_text(v)) for k, v in e['kv'])
        out.append('%s:%s' % (e['transport'], kv))
    return ';'.join(out)


def observe(text):
    """what getDBusEndpoints makes of an address string, in the model's vocabulary"""
    eps = endpoints.getDBusEndpoints(MemoryReactorClock(), text)
    out = []
    for ep in eps:
        n = type(ep).__name__
        if n == 'UNIXClientEndpoint':
            p = ep._path
            p = p.decode('latin-1') if isinstance(p, bytes) else p
            where = (('NUL',) + tuple(p[1:])) if p[:1] == '\0' else tuple(p)
            out.append({'kind': 'unix', 'where': where, 'port': ()})
        elif n == 'TCP4ClientEndpoint':
            out.append({'kind': 'tcp', 'where': tuple(ep._host), 'port': tuple(str(ep._port))})
        else:
            out.append({'kind': '?' + n, 'where': (), 'port': ()})
    return tuple(out)


def stage(chk, rng, thorough):
    res, states = tlc.dump_states('Address', 'a.cfg', extra={
        'a.cfg': 'SPECIFICATION Spec\nINVARIANT OrderKept\nINVARIANT UsableFound\nCHECK_DEADLOCK FALSE\n'}, timeout=300)
    chk.tlc_stats(res, 'Address: lists of one and two entries')
    if not res.ok:
        chk.violation('model: Address %s %s' % res.violation, dict(kind='TLC', trace=repr(res.trace[-1:])))
    nbad = 0
    traces = []
    for st in states:
        text = addr_text(st['addr'])
        try:
            got = observe(text)
        except Exception as ex:
            got = ({'kind': 'raised ' + type(ex).__name__, 'where': (), 'port': ()},)
        want = tuple(dict(w) for w in st['want'])
        chk.traces += 1
        norm = lambda eps: tuple((e['kind'], tuple(e['where']), tuple(e['port'])) for e in eps)
        if norm(got) != norm(want):
            nbad += 1
            if nbad <= 4:
                chk.violation('address %r: endpoints %r, the address list means %r' % (text, norm(got), norm(want)),
                              dict(kind='spec->code address', module='address', address=text, got=repr(got), want=repr(want)))
        traces.append([({'n': 'Init'}, {'addr': st['addr'], 'want': got})])
    chk.notes['address_lists'] = len(states)
    # the same verdicts by TLC on the recorded results (a sample: the comparison above already covered all)
    sample = traces if thorough else rng.sample(traces, min(len(traces), 40))
    rej, stt = core.validate_traces('Address', OBS, sample, {}, cfg_consts='', initpred='TraceAddr', nproc=4)
    chk.states += stt['states']
    chk.transitions += stt['transitions']
    for ti, _, _ in rej[:2]:
        if not nbad:
            chk.violation('recorded endpoints rejected by Address.tla: %r' % (sample[ti][0][1],), dict(kind='code->spec address'))
