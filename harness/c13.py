"""C13 - built-in bus: a name has one live owner; ownership follows request flags.
Spec: spec/Bus.tla (name table part: SpecNames)."""
import random

from . import core, tlc, fakes  # noqa: F401
from . import busdriver as bd

OBS = ['out']
BASE = 'MC_Bus'
INVS = ['LiveOwner', 'NoDead', 'NoDup', 'Fresh', 'UniqueIds', 'NoGhostDelivery']
PROPS = ['ReplySound', 'ReplaceOnlyIfAgreed', 'ReleasedIsGone', 'Succession', 'NeverReused']


def cfg(clients, names, maxid, spec='SpecNames', props=True, rules='{}', sigs='{}', match='cMatch0', maxrules=0):
    s = ('SPECIFICATION %s\nCONSTANTS\n Client = {%s}\n Name = {%s}\n Rules = %s\n Sigs = %s\n Match <- %s\n MaxId = %d\n'
         ' MaxRules = %d\n' % (spec, ', '.join(map(str, clients)), ', '.join(map(str, names)), rules, sigs, match, maxid, maxrules))
    s += ''.join('INVARIANT %s\n' % i for i in INVS)
    if props:
        s += ''.join('PROPERTY %s\n' % p for p in PROPS)
    return s + 'CHECK_DEADLOCK FALSE\n'


def trace_cfg(params):
    return ('CONSTANTS\n Client = {%s}\n Name = {%s}\n Rules = {"R1", "R2", "R3", "R4", "R5", "R6", "R7", "R8"}\n Sigs = {"S1", "S2", "S3"}\n Match <- cMatchAll\n'
            ' MaxId = 1000\n MaxRules = 1000\n' % (', '.join(map(str, range(1, params['clients'] + 1))),
                                                    ', '.join(map(str, range(1, params['names'] + 1)))))


def make_driver(params, acts):
    return bd.BusDriver(list(range(1, params['clients'] + 1)))


def rerecord(params, acts):
    return bd.rerecord_with(make_driver(params, acts), acts)


ACTIONS = bd.ACTIONS
replay_file = core.replay_file


def random_names_history(rng, nclients, nnames, steps):
    drv = bd.BusDriver(list(range(1, nclients + 1)))
    tr = [({'n': 'Init'}, drv.project())]
    for _ in range(steps):
        live = [c for c in drv.slots if drv.p[c] is not None]
        dead = [c for c in drv.slots if drv.p[c] is None]
        r = rng.random()
        if dead and (not live or r < 0.15):
            a = ('Hello', (rng.choice(dead),))
        elif r < 0.22 and live:
            a = ('Disconnect', (rng.choice(live),))
        elif r < 0.6:
            a = ('RequestName', (rng.choice(live), rng.randint(1, nnames), rng.random() < 0.5, rng.random() < 0.5, rng.random() < 0.4))
        elif r < 0.75:
            a = ('ReleaseName', (rng.choice(live), rng.randint(1, nnames)))
        elif r < 0.85:
            a = ('GetNameOwner', (rng.choice(live), rng.randint(1, nnames)))
        elif r < 0.95:
            a = ('ListQueued', (rng.choice(live), rng.randint(1, nnames)))
        else:
            a = ('GetUniqueOwner', (rng.choice(live), rng.randint(1, 8)))
        drv.apply(*a)
        rec = {'n': a[0]}
        rec.update(dict(zip(ACTIONS[a[0]], a[1])))
        tr.append((rec, drv.project()))
    return tr


def run(tier, seed):
    chk = core.Check('C13', tier, seed)
    rng = random.Random(seed)
    thorough = tier == 'thorough'
    # exhaustive: 2 clients (one reconnection), 1 name, all 8 flag combinations, with the action properties
    res, g = tlc.dump_graph(BASE, 'b.cfg', extra={'b.cfg': cfg([1, 2], [1], 3)}, timeout=600)
    chk.tlc_stats(res, 'Bus names: 2 clients (3 connections), 1 name')
    if not res.ok:
        chk.violation('model: Bus(names) %s %s' % res.violation, dict(kind='TLC', trace=repr(res.trace[-3:])))
    chk.notes['graph_2c1n'] = [len(g.nodes), g.nedges]
    params = {'clients': 2, 'names': 1}
    paths = list(core.edge_cover_paths(g))
    if len(paths) > (40000 if thorough else 4000):
        paths = rng.sample(paths, 40000 if thorough else 4000)
    core.replay_paths(chk, g, paths, lambda a: make_driver(params, a), '2c1n edges', 'c13', params)
    core.replay_paths(chk, g, list(core.random_walks(g, 4000 if thorough else 600, 14, rng)), lambda a: make_driver(params, a),
                      '2c1n walks', 'c13', params)
    # a client that never says Hello (this bus serves its calls all the same) is a connected client like any other: what it
    # owns or waits for is given up when it disconnects.  The model's histories, with client 1's Hello left unsaid
    from .framing import walk
    nlazy = 0
    for al, rp, nq in ((False, False, False), (True, False, False), (False, False, True)):
        for acts in ([('Hello', (1,)), ('RequestName', (1, 1, al, rp, nq)), ('Hello', (2,)), ('RequestName', (2, 1, False, False, False)),
                      ('Disconnect', (1,)), ('GetNameOwner', (2, 1))],
                     [('Hello', (2,)), ('RequestName', (2, 1, False, False, False)), ('Hello', (1,)), ('RequestName', (1, 1, al, rp, False)),
                      ('Disconnect', (1,)), ('ListQueued', (2, 1))]):
            try:
                ids = walk(g, acts)
            except KeyError:
                continue
            drv = make_driver(params, acts)
            try:
                for name_, args_ in acts:
                    if name_ == 'Hello' and args_ == (1,):
                        for c_ in drv.slots:
                            if drv.t[c_] is not None:
                                drv.pos[c_] = len(drv.t[c_].log)
                        drv.cur = None
                        drv._connect(1)               # connected and authenticated - and no Hello
                        # (the bus numbers a connection when it first hears from it: keep the model's numbering)
                        drv.uid[1] = 1 if acts[0] == ('Hello', (1,)) else 2
                    else:
                        drv.apply(name_, args_)
                got = drv.project()
                want = g.nodes[ids[-1]]
                at = lambda o: o[2] if isinstance(o, dict) else o[1]          # what client 2 was sent in the last step
                dif = core.diff_states({'out2': at(want['out'])}, {'out2': at(got['out'])})
            except Exception:
                dif = [('exception', 'none', core.traceback_str()[-300:])]
            nlazy += 1
            if dif:
                chk.violation('a client that never said Hello disconnects: what the other client is told differs from the model (%s)' % (
                    acts[-1][0],), dict(kind='spec->code no Hello', module='c13', actions=repr(acts), diff=[(a, repr(b), repr(c)) for a, b, c in dif]))
    chk.traces += nlazy
    chk.notes['histories_without_hello'] = nlazy
    # the same graph through the client API: real DBusClientConnections on the bus (requestBusName with all flags and both
    # errback modes, releaseBusName, getNameOwner, listQueuedBusNameOwners, disconnect), results of Deferreds and the
    # NameAcquired / NameLost callbacks in arrival order
    from . import busclient
    t2 = list(core.edge_cover_tours(g, 30))
    chk.notes['tours_2c1n'] = len(t2)
    if not thorough:
        t2 = rng.sample(t2, min(len(t2), 800))
    core.replay_paths(chk, g, t2, lambda a: busclient.make_driver(params, a), '2c1n client API tours', 'busclient', params)
    # bigger instances.  3 clients on 1 name: invariants, and the graph is replayed too (two clients waiting behind an
    # owner only exist from three clients on): sampled edge-cover tours (all of them in the thorough tier) and walks
    res, g3 = tlc.dump_graph(BASE, 'b.cfg', extra={'b.cfg': cfg([1, 2, 3], [1], 3, props=thorough)}, timeout=3000)
    chk.tlc_stats(res, 'Bus names: 3 clients, 1 name')
    if not res.ok:
        chk.violation('model: Bus(names 3x1) %s %s' % res.violation, dict(kind='TLC', trace=repr(res.trace[-3:])))
    chk.notes['graph_3c1n'] = [len(g3.nodes), g3.nedges]
    p3 = {'clients': 3, 'names': 1}
    tours = list(core.edge_cover_tours(g3, 30))
    chk.notes['tours_3c1n'] = len(tours)
    if not thorough:
        tours = rng.sample(tours, min(len(tours), 1500))
    core.replay_paths(chk, g3, tours, lambda a: make_driver(p3, a), '3c1n tours', 'c13', p3)
    core.replay_paths(chk, g3, list(core.random_walks(g3, 6000 if thorough else 500, 18, rng)), lambda a: make_driver(p3, a),
                      '3c1n walks', 'c13', p3)
    core.replay_paths(chk, g3, list(core.random_walks(g3, 3000 if thorough else 300, 18, rng)),
                      lambda a: busclient.make_driver(p3, a), '3c1n client API walks', 'busclient', p3)
    del g3
    if thorough:
        res, _ = tlc.run(BASE, 'b.cfg', extra={'b.cfg': cfg([1, 2, 3], [1, 2], 3, props=False)}, timeout=3000)
        chk.tlc_stats(res, 'Bus names: 3 clients, 2 names')
        if not res.ok:
            chk.violation('model: Bus(names 3x2) %s %s' % res.violation, dict(kind='TLC', trace=repr(res.trace[-3:])))
    # code -> spec: random histories with up to 4 (6) clients on 2 names
    for nclients in ((3, 4, 6) if thorough else (3, 4)):
        params = {'clients': nclients, 'names': 2}
        batch = []
        for _ in range(200 if thorough else 40):
            try:
                batch.append(random_names_history(rng, nclients, 2, rng.randint(8, 30)))
            except Exception:
                chk.violation('recording: implementation raised', dict(kind='exception', module='c13', trace=core.traceback_str()))
                break
        core.validate_and_report(chk, BASE, OBS, ACTIONS, batch, trace_cfg(params), ['LiveOwner', 'NoDead', 'NoDup', 'UniqueIds'], 'c13',
                                 params, 'random %d clients' % nclients, nproc=8)
    chk.sample({'recorded': [a for a, s in batch[0]][:6]})
    # canary
    tr = [list(x) for x in rerecord(params, [('Hello', (1,)), ('RequestName', (1, 1, False, False, False))])]
    for j, (a, st) in enumerate(tr):
        if a.get('n') == 'RequestName' and 'c' in a:
            out = [list(x) for x in st['out']]
            k = a['c'] - 1
            if out[k] and out[k][-1].get('t') == 'return':
                out[k][-1] = dict(out[k][-1], v=(out[k][-1]['v'] % 4) + 1)
                tr[j] = (a, dict(st, out=tuple(tuple(x) for x in out)))
                break
    rej, _ = core.validate_traces(BASE, OBS, [[tuple(x) for x in tr]], ACTIONS, cfg_consts=trace_cfg(params), nproc=1)
    chk.canary = {'what': 'one RequestName reply code changed in a recorded history', 'rejected': bool(rej)}
    chk.assumptions = ['clients are scripted: they send real method-call bytes to real BusProtocol objects (ANONYMOUS handshake)',
                       'a replaced owner leaves the queue (as the code does; dbus-daemon would re-queue it) - outside the property',
                       'the name table itself is observed only through replies, signals, GetNameOwner and ListQueuedOwners',
                       'second driver: real client connections using the client API over in-memory links, each action run to '
                       'quiescence; the bus leaves the SENDER of its own signals empty (accepted by both drivers)']
    return chk.finish(
        rule='TLC explores all histories of Hello / RequestName (8 flag combinations) / ReleaseName / GetNameOwner / '
             'ListQueuedOwners / disconnect for 2 clients with one reconnection (action properties: reply soundness, replacement '
             'only if agreed, succession, released-is-gone) and the invariants for 3 clients; every edge and random walks of the '
             '2-client graph, and sampled (thorough: all) edge-cover tours and walks of the 3-client graph, are '
             'replayed on a real Bus comparing every reply and signal each client receives; random histories with up to 4 (6) '
             'clients on 2 names are validated by TLC',
        exhaustive=True)
