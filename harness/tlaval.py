"""TLA+ value <-> Python value conversion.

Python side representation
    int, bool, str            the same
    tuple                     TLA+ sequence / tuple  <<...>>
    frozenset                 TLA+ set {...}
    dict with str keys        TLA+ record [a |-> ..]   (printed as record)
    FnDict(dict)              TLA+ function (k :> v @@ ...)  with arbitrary keys
TLC prints a function whose domain is 1..n as a sequence; `parse` therefore returns a
tuple for those and `norm` below is used by comparisons that must not care.
"""


class FnDict(dict):
    """A TLA+ function with non-string keys (printed with :> and @@)."""

    def __hash__(self):
        return hash(frozenset(self.items()))


class Rec(dict):
    """A parsed TLA+ record (hashable so that sets of records can be represented)."""

    def __hash__(self):
        return hash(frozenset((k, _h(v)) for k, v in self.items()))


def _h(v):
    try:
        return hash(v)
    except TypeError:
        return hash(repr(v))


class TLAParseError(Exception):
    pass


class _P:
    def __init__(self, s):
        self.s = s
        self.i = 0
        self.n = len(s)

    def ws(self):
        s, n = self.s, self.n
        while self.i < n and s[self.i] in ' \t\r\n':
            self.i += 1

    def peek(self, k=1):
        return self.s[self.i:self.i + k]

    def eat(self, tok):
        self.ws()
        if not self.s.startswith(tok, self.i):
            raise TLAParseError('expected %r at %d: %r' % (tok, self.i, self.s[self.i:self.i + 40]))
        self.i += len(tok)

    def value(self):
        v = self.atom()
        # function composition  a :> b @@ c :> d   (only appears inside parentheses)
        return v

    def atom(self):
        self.ws()
        s = self.s
        c = s[self.i] if self.i < self.n else ''
        if c == '"':
            j = self.i + 1
            out = []
            while s[j] != '"':
                if s[j] == '\\':
                    j += 1
                    ch = s[j]
                    out.append({'n': '\n', 't': '\t', 'r': '\r', 'f': '\f'}.get(ch, ch))
                else:
                    out.append(s[j])
                j += 1
            self.i = j + 1
            return ''.join(out)
        if c == '<' and self.peek(2) == '<<':
            self.i += 2
            items = self.items('>>')
            return tuple(items)
        if c == '{':
            self.i += 1
            items = self.items('}')
            return frozenset(items)
        if c == '[':
            self.i += 1
            d = Rec()
            self.ws()
            if self.peek(1) == ']':
                self.i += 1
                return d
            while True:
                self.ws()
                j = self.i
                while s[j].isalnum() or s[j] == '_':
                    j += 1
                k = s[self.i:j]
                self.i = j
                self.eat('|->')
                d[k] = self.fn_or_value()
                self.ws()
                if self.peek(1) == ',':
                    self.i += 1
                    continue
                self.eat(']')
                return d
        if c == '(':
            self.i += 1
            v = self.fn_or_value()
            self.eat(')')
            return v
        if c == '-' or c.isdigit():
            j = self.i + 1
            while j < self.n and s[j].isdigit():
                j += 1
            v = int(s[self.i:j])
            self.i = j
            self.ws()
            if self.peek(2) == '..':
                self.i += 2
                hi = self.atom()
                return frozenset(range(v, hi + 1))
            return v
        if c.isalpha() or c == '_':
            j = self.i
            while j < self.n and (s[j].isalnum() or s[j] == '_'):
                j += 1
            w = s[self.i:j]
            self.i = j
            if w == 'TRUE':
                return True
            if w == 'FALSE':
                return False
            return w  # model value -> its name
        raise TLAParseError('unexpected %r at %d: %r' % (c, self.i, s[self.i:self.i + 40]))

    def fn_or_value(self):
        v = self.atom()
        self.ws()
        if self.peek(2) == ':>':
            d = FnDict()
            k = v
            while True:
                self.eat(':>')
                d[k] = self.atom()
                self.ws()
                if self.peek(2) == '@@':
                    self.i += 2
                    k = self.atom()
                    self.ws()
                    continue
                break
            return d
        return v

    def items(self, close):
        out = []
        self.ws()
        if self.s.startswith(close, self.i):
            self.i += len(close)
            return out
        while True:
            out.append(self.fn_or_value())
            self.ws()
            if self.peek(1) == ',':
                self.i += 1
                continue
            self.eat(close)
            return out


def parse(s):
    p = _P(s)
    v = p.fn_or_value()
    p.ws()
    if p.i != p.n:
        raise TLAParseError('trailing text at %d: %r' % (p.i, s[p.i:p.i + 40]))
    return v


def parse_state(text):
    """Parse a TLC state printed as  /\\ x = v  lines (possibly multi-line values)."""
    st = {}
    parts = []
    cur = None
    for line in text.split('\n'):
        if line.startswith('/\\ '):
            if cur is not None:
                parts.append(cur)
            cur = line[3:]
        elif cur is not None:
            cur += '\n' + line
        elif line.strip():
            # single variable state printed without the bullet
            cur = line
    if cur is not None:
        parts.append(cur)
    for p in parts:
        k, _, v = p.partition(' = ')
        st[k.strip()] = parse(v.strip())
    return st


def to_tla(v):
    """Print a Python value as a TLA+ expression."""
    if v is True:
        return 'TRUE'
    if v is False:
        return 'FALSE'
    if isinstance(v, int):
        return str(v) if v >= 0 else '(%d)' % v
    if isinstance(v, str):
        return '"' + v.replace('\\', '\\\\').replace('"', '\\"') + '"'
    if isinstance(v, (tuple, list)):
        return '<<' + ','.join(to_tla(x) for x in v) + '>>'
    if isinstance(v, (set, frozenset)):
        return '{' + ','.join(sorted(to_tla(x) for x in v)) + '}'
    if isinstance(v, FnDict):
        if not v:
            return '<<>>'
        return '(' + ' @@ '.join('%s :> %s' % (to_tla(k), to_tla(x)) for k, x in v.items()) + ')'
    if isinstance(v, dict):
        if not v:
            return '<<>>'
        return '[' + ','.join('%s |-> %s' % (k, to_tla(x)) for k, x in v.items()) + ']'
    raise TypeError('cannot print %r as TLA+' % (v,))


def norm(v):
    """Canonical form for comparisons: functions with domain 1..n become tuples, every
    dict becomes a sorted tuple of pairs tagged 'fn', sets become frozensets."""
    if isinstance(v, bool) or isinstance(v, int) or isinstance(v, str):
        return v
    if isinstance(v, (tuple, list)):
        return tuple(norm(x) for x in v)
    if isinstance(v, (set, frozenset)):
        return frozenset(norm(x) for x in v)
    if isinstance(v, dict):
        if not v:
            return ()
        ks = list(v.keys())
        if all(isinstance(k, int) and not isinstance(k, bool) for k in ks) and sorted(ks) == list(range(1, len(ks) + 1)):
            return tuple(norm(v[i]) for i in range(1, len(ks) + 1))
        return ('fn', frozenset((norm(k), norm(x)) for k, x in v.items()))
    raise TypeError('cannot normalise %r' % (v,))


def same(a, b):
    return norm(a) == norm(b)
