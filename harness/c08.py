"""C08 - each remote call completes exactly once, with the reply that belongs to it.

Spec: spec/Calls.tla.  Binding: CallsDriver drives a real DBusClientConnection (past Hello, over
MemoryTransport, virtual clock) with the actions of the spec and projects the observable state.
"""
import random

from . import refwire, core, tlc, fakes
from .tlaval import norm

from txdbus import client, error, message

ACTIONS = {'Issue': ('c', 'k'), 'Return': ('c', 'sh'), 'ErrorReply': ('c', 'sh'),
           'Expire': ('c',), 'Unsolicited': ('kind',), 'Lose': (), 'Quiet': ()}
OBS = ['status', 'cfg', 'table', 'timer', 'fired', 'conn']
NOCFG = {'dl': False, 'ret': '-', 'nr': False}
SHAPES = ['none', 'one', 'struct', 'many', 'oneint', 'arrst']
ESHAPES = ['nobody', 'msg', 'nonstr', 'msg2']
RETS = ['nocheck', '', 's', 'ss', '(ss)', 'i', 'a(ss)']


def reply_payload(c, sh):
    """signature, body of a METHOD_RETURN of shape sh answering call c (payload names c)."""
    if sh == 'none':
        return None, None
    if sh == 'one':
        return 's', ['one:%d' % c]
    if sh == 'oneint':
        return 'i', [1000 + c]
    if sh == 'struct':
        return '(ss)', [['st:%d' % c, 'x']]
    if sh == 'many':
        return 'ss', ['many:%d' % c, 'y']
    if sh == 'arrst':
        return 'a(ss)', [[['as:%d' % c, 'x']]]
    raise ValueError(sh)


def _ref(t, x):
    if t[0] == '(':
        return tuple(_ref(tt, xx) for tt, xx in zip(refwire.split(t[1:-1]), x))
    if t[0] == 'a' and t[1] != '{':
        return [_ref(t[1:], xx) for xx in x]
    return x


def foreign(m, le=True):
    fields = [('reply_serial', int(m.reply_serial))]
    if m._messageType == 3:
        fields.insert(0, ('error_name', m.error_name))
    if m.destination:
        fields.append(('destination', m.destination))
    sig = m.signature or None
    body = [_ref(t, x) for t, x in zip(refwire.split(sig or ''), m.body or [])] if sig else None
    return refwire.msg(m._messageType, m.serial, fields, sig, body, le=le, extra=[(20, 'u', 9), (21, 's', 'later')])


def decode_value(v, c_default):
    """(kind, shape, from) of a delivered value, '?' when it is not one of the payloads."""
    if v is None:
        return 'None', 'none', c_default
    if isinstance(v, str) and v.startswith('one:'):
        return 'single', 'one', int(v[4:])
    if isinstance(v, int) and not isinstance(v, bool) and 1000 <= v < 2000:
        return 'single', 'oneint', v - 1000
    if isinstance(v, list) and len(v) == 1 and isinstance(v[0], list) and len(v[0]) == 2 \
            and isinstance(v[0][0], str) and v[0][0].startswith('as:') and v[0][1] == 'x':
        return 'single', 'arrst', int(v[0][0][3:])
    if isinstance(v, list) and len(v) == 1 and isinstance(v[0], list) and len(v[0]) == 2 \
            and isinstance(v[0][0], str) and v[0][0].startswith('st:') and v[0][1] == 'x':
        return 'list', 'struct', int(v[0][0][3:])
    if isinstance(v, list) and len(v) == 2 and isinstance(v[0], str) and v[0].startswith('many:') and v[1] == 'y':
        return 'list', 'many', int(v[0][5:])
    return '?', '?', c_default


def error_payload(c, sh):
    name = 'org.ex.Err%d' % c
    if sh == 'nobody':
        return name, None, None
    if sh == 'msg':
        return name, 's', ['m%d' % c]
    if sh == 'nonstr':
        return name, 'i', [70 + c]
    if sh == 'msg2':
        return name, 'si', ['m%d' % c, 7]
    raise ValueError(sh)


def decode_error(e):
    """(shape, from) of a RemoteError built from one of our error payloads, else ('?', -1)."""
    n = getattr(e, 'errName', '')
    if not isinstance(n, str) or not n.startswith('org.ex.Err'):
        return '?', -1
    try:
        c = int(n[len('org.ex.Err'):])
    except ValueError:
        return '?', -1
    msg = getattr(e, 'message', None)
    vals = getattr(e, 'values', None)
    for sh in ESHAPES:
        _, sig, body = error_payload(c, sh)
        exp_vals = body or []
        exp_msg = body[0] if body and isinstance(body[0], str) else ''
        if msg == exp_msg and list(vals) == exp_vals:
            return sh, c
    return '?', c


class CallsDriver:
    def __init__(self, calls, plan=None):
        self.clock = fakes.install_clock()
        self.conn, self.t, self.f = fakes.ready_client()
        self.calls = list(calls)
        self.plan = plan or {}
        self.serial = {}
        self.target = {}
        self.cfg = {c: dict(NOCFG) for c in self.calls}
        self.fired = {c: [] for c in self.calls}
        self.lost = False
        self.reason = None
        self.noise = []          # anything unexpected (late firings, exceptions)
        self.nexp = 0
        # a second connection of the same process with a call of its own in flight: whatever happens on the first
        # connection (replies, errors, expiries, loss) is none of its business
        self.by_conn, self.by_t, _ = fakes.ready_client(bus_name=':1.8')
        self.by_fired = []
        self.by_conn.callRemote('/by', 'Stander', interface='org.ex.By', destination='org.ex.D').addBoth(self.by_fired.append)
        self.by_serial = fakes.parse_all(self.by_t.take())[0].serial

    # -- helpers
    def _other_serial(self, c):
        """serial of some *other* issued call, used as the reply message's own serial so that a
        lookup by serial instead of reply_serial would cross-deliver."""
        others = [self.serial[x] for x in self.calls if x != c and x in self.serial]
        return others[(c + len(others)) % len(others)] if others else 0x6000000 + c

    def _feed(self, m, own_serial=None):
        if own_serial is not None:
            m.serial = own_serial
            m._marshal(False)
        self.nfeed = getattr(self, 'nfeed', 0) + 1
        raw = m.rawMessage
        if self.nfeed % 2 == 0 and m._messageType in (2, 3):
            # the peer is another implementation: its own field order, a header field this one does not know ahead of
            # the others, big-endian every fourth time
            raw = foreign(m, le=self.nfeed % 4 != 0)
        self.conn.dataReceived(raw)

    def _on_cb(self, v, c):
        kind, sh, frm = decode_value(v, c)
        self.fired[c].append({'k': 'value', 'kind': kind, 'sh': sh, 'from': frm})
        if getattr(self, 'disconnect_in_callback', None) == c:
            # the caller's reaction to this result is to ask for the connection to be closed; the loss is reported later
            self.disconnect_in_callback = None
            self.conn.disconnect()
        if getattr(self, 'lose_in_callback', None) == c:
            # the caller's reaction to this result is to tear the connection down, and the transport reports the loss at once
            self.lose_in_callback = None
            self.do_Lose()
        # what the caller makes of the result is its own business: the Deferred of a call goes on with this value
        return 'handled by the caller of %d' % c

    def _on_eb(self, f, c):
        e = f.value
        if isinstance(e, error.TimeOut):
            o = {'k': 'timeout', 'kind': '-', 'sh': '-', 'from': c}
        elif isinstance(e, error.RemoteError):
            if isinstance(e.errName, str) and e.errName.startswith('Unexpected return value signature'):
                o = {'k': 'sigerr', 'kind': '-', 'sh': '-', 'from': c}
            else:
                sh, frm = decode_error(e)
                o = {'k': 'remote', 'kind': '-', 'sh': sh, 'from': frm}
        elif self.reason is not None and f is self.reason:
            o = {'k': 'lost', 'kind': '-', 'sh': '-', 'from': c}
        else:
            o = {'k': 'other:' + type(e).__name__, 'kind': '-', 'sh': '-', 'from': c}
        self.fired[c].append(o)

    # -- actions
    def apply(self, name, args):
        getattr(self, 'do_' + name)(*args)

    def do_Issue(self, c, k):
        kw = {}
        if k['dl']:
            tgt = self.plan.get(c, 10 ** 6 + c)
            self.target[c] = tgt
            kw['timeout'] = tgt - self.clock.seconds()
        elif c % 2 == 0:
            kw['timeout'] = 0            # "no deadline", spelled as a number by some callers
        if k['ret'] != 'nocheck':
            kw['returnSignature'] = k['ret']
        if k['nr']:
            kw['expectReply'] = False
        self.cfg[c] = dict(k)
        d = self.conn.callRemote('/o%d' % c, 'M%d' % c, interface='org.ex.I', destination='org.ex.D',
                                 signature='s', body=['arg%d' % c], **kw)
        out = fakes.parse_all(self.t.take())
        assert len(out) == 1 and out[0].member == 'M%d' % c, out
        self.serial[c] = out[0].serial
        self.issued_msg = out[0]
        d.addCallbacks(self._on_cb, self._on_eb, callbackArgs=(c,), errbackArgs=(c,))

    def _reply_serial(self, c):
        return self.serial.get(c, 0x70000000 + c)

    def do_Return(self, c, sh):
        sig, body = reply_payload(c, sh)
        m = message.MethodReturnMessage(self._reply_serial(c), body=body, signature=sig,
                                        destination=':1.7')
        self._feed(m, self._other_serial(c))

    def do_ErrorReply(self, c, sh):
        name, sig, body = error_payload(c, sh)
        m = message.ErrorMessage(name, self._reply_serial(c), signature=sig, body=body,
                                 destination=':1.7')
        self._feed(m, self._other_serial(c))

    def do_Expire(self, c):
        tgt = self.target[c]
        now = self.clock.seconds()
        assert tgt >= now, (tgt, now)
        self.clock.advance(tgt - now)

    def do_Unsolicited(self, kind):
        unk = 0x7fff0000
        own = self._other_serial(-1) if self.serial else None
        if kind == 'return':
            self._feed(message.MethodReturnMessage(unk, body=['one:1'], signature='s'), own)
        elif kind == 'error':
            self._feed(message.ErrorMessage('org.ex.Err1', unk, signature='s', body=['m1']), own)
        elif kind == 'signal':
            self._feed(message.SignalMessage('/o1', 'Sig', 'org.ex.I', signature='s', body=['one:1']), own)
        elif kind == 'call':
            self._feed(message.MethodCallMessage('/nowhere', 'M1', interface='org.ex.I'), own)
            self.t.take()     # the UnknownObject error reply

    def do_Lose(self):
        self.reason = fakes.conn_lost()
        self.lost = True
        self.t.disconnected = True
        self.conn.connectionLost(self.reason)

    def do_Quiet(self):
        self.clock.advance(10 ** 7)

    # -- projection
    def project(self):
        status = []
        for c in self.calls:
            if c not in self.serial:
                status.append('new')
            elif self.fired[c]:
                status.append('done')
            else:
                status.append('out')
        pend = getattr(self.conn, '_pendingCalls', None)
        st = {
            'status': tuple(status),
            'cfg': tuple(self.cfg[c] for c in self.calls),
            'fired': tuple(tuple(self.fired[c]) for c in self.calls),
            'conn': 'lost' if self.lost else 'up',
        }
        times = [dc.getTime() for dc in self.clock.getDelayedCalls() if dc.active()]
        timer = set()
        for c in self.calls:
            if c in self.target and self.target[c] in times:
                timer.add(c)
                times.remove(self.target[c])
        if times:
            timer.add(-1)        # a delayed call nobody asked for
        st['timer'] = frozenset(timer)
        if isinstance(pend, dict):
            inv = {s: c for c, s in self.serial.items()}
            st['table'] = frozenset(inv.get(s, -s) for s in pend.keys())
        bp = getattr(self.by_conn, '_pendingCalls', None)
        if self.by_fired or not isinstance(bp, dict) or set(bp.keys()) != {self.by_serial}:
            st['conn'] = 'the call of another connection was disturbed: fired %r, its table %r' % (
                [type(getattr(x, 'value', x)).__name__ for x in self.by_fired], sorted(bp.keys()) if isinstance(bp, dict) else bp)
        return st


def plan_for(path_acts):
    """absolute deadlines consistent with the order of Expire events in the behaviour"""
    plan = {}
    t = 100
    for name, args in path_acts:
        if name == 'Expire':
            plan[args[0]] = t
            t += 100
    return plan


BASE = 'MC_Calls'


def make_driver(params, acts):
    return CallsDriver(list(range(1, params['ncalls'] + 1)), plan_for(acts))


def replay(chk, g, paths, calls, label):
    params = {'ncalls': len(calls)}
    return core.replay_paths(chk, g, paths, lambda acts: make_driver(params, acts), label, 'c08', params)


def rerecord(params, acts):
    drv = make_driver(params, acts)
    tr = [({'n': 'Init'}, drv.project())]
    for n, args in acts:
        drv.apply(n, args)
        rec = {'n': n}
        rec.update(dict(zip(ACTIONS[n], args)))
        tr.append((rec, drv.project()))
    return tr


replay_file = core.replay_file


def record(rng, ncalls, nsteps, full=True):
    """code -> spec: random driver on ncalls concurrent calls; returns trace [(act, state)]."""
    calls = list(range(1, ncalls + 1))
    drv = CallsDriver(calls)
    # random distinct deadlines
    plan = {}
    base = rng.sample(range(1, 50 * ncalls), ncalls)
    for c, b in zip(calls, base):
        plan[c] = 10 * b
    drv.plan = plan
    tr = [({'n': 'Init'}, drv.project())]
    for _ in range(nsteps):
        new = [c for c in calls if c not in drv.serial]
        r = rng.random()
        if drv.lost:
            a = ('Quiet', ())
        elif new and r < 0.35:
            c = rng.choice(new)
            k = {'dl': rng.random() < 0.5, 'ret': rng.choice(RETS) if full else rng.choice(['nocheck', 's']),
                 'nr': rng.random() < 0.1}
            # deadline must lie in the future
            while k['dl'] and (plan[c] <= drv.clock.seconds() or
                               any(plan[c] == plan[x] for x in calls if x != c)):
                plan[c] = int(drv.clock.seconds()) + rng.randint(1, 500 * ncalls)
            a = ('Issue', (c, k))
        elif r < 0.65:
            a = ('Return', (rng.choice(calls), rng.choice(SHAPES)))
        elif r < 0.8:
            a = ('ErrorReply', (rng.choice(calls), rng.choice(ESHAPES)))
        elif r < 0.9:
            # earliest active deadline, if any
            act = [c for c in calls if c in drv.target and c in drv.project()['timer']]
            if not act:
                continue
            c = min(act, key=lambda x: drv.target[x])
            a = ('Expire', (c,))
        elif r < 0.97:
            a = ('Unsolicited', (rng.choice(['return', 'error', 'signal', 'call']),))
        else:
            a = ('Lose', ())
        drv.apply(*a)
        rec = {'n': a[0]}
        rec.update(dict(zip(ACTIONS[a[0]], a[1])))
        tr.append((rec, drv.project()))
    return tr


def trace_cfg(ncalls):
    if isinstance(ncalls, dict):
        ncalls = ncalls['ncalls']
    return ('CONSTANTS\n  Call = {%s}\n  Cfgs <- CfgsB\n  Shapes <- AllShapes\n  EShapes <- AllEShapes\n'
            '  Deviations = {}\n' % ', '.join(str(i) for i in range(1, ncalls + 1)))


def core_freeze(k):
    from .tlaval import Rec
    return Rec(k) if not isinstance(k, Rec) else k


INVS = ['AtMostOnce', 'ExactlyOnceWhenDone', 'RightOutcome', 'NoCross', 'NoLeak', 'LostSilent']


def run(tier, seed):
    chk = core.Check('C08', tier, seed)
    rng = random.Random(seed)
    thorough = tier == 'thorough'
    # 1. design-level model checking (invariants on the bounded instances)
    for cfg in (['MC_Calls_A3.cfg', 'MC_Calls_B2.cfg'] + (['MC_Calls_A4.cfg'] if thorough else [])):
        res, _ = tlc.run('MC_Calls', cfg, timeout=1500)
        chk.tlc_stats(res, cfg)
        if not res.ok:
            chk.violation('model: %s %s violated in %s' % (res.violation + (cfg,)),
                          dict(kind='TLC', trace=[(a, repr(s)) for a, s in res.trace]))
    # 2. spec -> code: every interleaving of instance A (N=3; N=4 sampled or exhaustive in thorough)
    res, g = tlc.dump_graph('MC_Calls', 'MC_Calls_A3.cfg')
    paths = list(core.paths_dfs(g, 2 * 3 + 2, max_noop=1, limit=None if thorough else 6000))
    if not thorough:
        rng.shuffle(paths)
    replay(chk, g, paths, [1, 2, 3], 'A3')
    cover = list(core.edge_cover_paths(g))
    replay(chk, g, cover, [1, 2, 3], 'A3-edges')
    chk.notes['A3_paths'] = len(paths)
    chk.notes['A3_edges'] = g.nedges
    if thorough:
        res4, g4 = tlc.dump_graph('MC_Calls', 'MC_Calls_A4.cfg', timeout=1500)
        p4 = list(core.random_walks(g4, 40000, 12, rng))
        replay(chk, g4, p4, [1, 2, 3, 4], 'A4-walks')
        replay(chk, g4, list(core.edge_cover_paths(g4)), [1, 2, 3, 4], 'A4-edges')
    # 2b. a peer that answers at once: the reply is handed to the connection from inside transport.write (an in-process
    #     or loopback transport does that), i.e. before callRemote has returned.  The model's Issue ; Return, as one step
    from .framing import walk
    resb, gb = tlc.dump_graph('MC_Calls', 'MC_Calls_B2.cfg')
    nsync = 0
    for sh in SHAPES:
        for k in ({'dl': False, 'ret': 'nocheck', 'nr': False}, {'dl': True, 'ret': 'nocheck', 'nr': False},
                  {'dl': True, 'ret': 's', 'nr': False}):
            acts = [('Issue', (1, core_freeze(k))), ('Return', (1, sh))]
            try:
                ids = walk(gb, acts)
            except KeyError:
                continue
            drv = CallsDriver([1, 2])
            orig_write = drv.t.write

            def write(data, drv=drv, sh=sh, orig_write=orig_write):
                orig_write(data)
                for m in fakes.parse_all(data):
                    if m._messageType == 1 and m.member == 'M1':
                        sig, body = reply_payload(1, sh)
                        drv.conn.dataReceived(message.MethodReturnMessage(m.serial, body=body, signature=sig,
                                                                          destination=':1.7').rawMessage)
            drv.t.write = write
            try:
                drv.do_Issue(1, k)
                got = drv.project()
                dif = core.diff_states(gb.nodes[ids[-1]], got)
            except Exception:
                dif = [('exception', 'none', core.traceback_str()[-300:])]
            nsync += 1
            if dif:
                chk.violation('a reply delivered from inside transport.write (shape %s, call %r): impl differs from model in %s' % (
                    sh, k, ','.join(sorted(set(d[0] for d in dif)))), dict(kind='spec->code sync reply', module='c08', shape=sh, cfg=k,
                                                                           diff=[(a, repr(b), repr(c)) for a, b, c in dif]))
    # ... and a completion callback that closes the connection, on a transport that reports the loss synchronously: the
    # model's Return ; Lose, as one step - the other outstanding call fails with the loss, the completed one is not touched
    for k2 in ({'dl': False, 'ret': 'nocheck', 'nr': False}, {'dl': True, 'ret': 'nocheck', 'nr': False}):
        k1 = {'dl': False, 'ret': 'nocheck', 'nr': False}
        acts = [('Issue', (1, core_freeze(k1))), ('Issue', (2, core_freeze(k2))), ('Return', (1, 'one')), ('Lose', ())]
        try:
            ids = walk(gb, acts)
        except KeyError:
            continue
        drv = CallsDriver([1, 2])
        try:
            drv.do_Issue(1, k1)
            drv.do_Issue(2, k2)
            drv.lose_in_callback = 1
            drv.do_Return(1, 'one')
            dif = core.diff_states(gb.nodes[ids[-1]], drv.project())
        except Exception:
            dif = [('exception', 'none', core.traceback_str()[-300:])]
        nsync += 1
        if dif:
            chk.violation('a completion callback that closes the connection (loss reported synchronously): impl differs from model in %s' % (
                ','.join(sorted(set(d[0] for d in dif)))), dict(kind='spec->code lose in callback', module='c08', cfg=k2,
                                                                  diff=[(a, repr(b), repr(c)) for a, b, c in dif]))
    # ... and a completion callback that asks for the connection to be closed while the reply of another call is already
    # there, in the same read: that reply came first (the model's Return ; Return ; Lose)
    for k2 in ({'dl': False, 'ret': 'nocheck', 'nr': False}, {'dl': True, 'ret': 'nocheck', 'nr': False}):
        k1 = {'dl': False, 'ret': 'nocheck', 'nr': False}
        acts = [('Issue', (1, core_freeze(k1))), ('Issue', (2, core_freeze(k2))), ('Return', (1, 'one')), ('Return', (2, 'one')),
                ('Lose', ())]
        try:
            ids = walk(gb, acts)
        except KeyError:
            continue
        drv = CallsDriver([1, 2])
        try:
            drv.do_Issue(1, k1)
            drv.do_Issue(2, k2)
            drv.disconnect_in_callback = 1
            raws = []
            for c in (1, 2):
                sig, body = reply_payload(c, 'one')
                raws.append(message.MethodReturnMessage(drv._reply_serial(c), body=body, signature=sig,
                                                        destination=':1.7').rawMessage)
            drv.conn.dataReceived(b''.join(raws))
            drv.do_Lose()
            dif = core.diff_states(gb.nodes[ids[-1]], drv.project())
        except Exception:
            dif = [('exception', 'none', core.traceback_str()[-300:])]
        nsync += 1
        if dif:
            chk.violation('a completion callback that disconnects while another reply waits in the same read: impl differs from model in %s' % (
                ','.join(sorted(set(d[0] for d in dif)))), dict(kind='spec->code disconnect in callback', module='c08', cfg=k2,
                                                                  diff=[(a, repr(b), repr(c)) for a, b, c in dif]))
    # ... and a disconnect callback that issues a further call on the dying connection: it fails with the loss like the
    # others (the model's Issue ; Issue ; Lose)
    for k2 in ({'dl': False, 'ret': 'nocheck', 'nr': False}, {'dl': True, 'ret': 'nocheck', 'nr': False}):
        k1 = {'dl': True, 'ret': 'nocheck', 'nr': False}
        acts = [('Issue', (1, core_freeze(k1))), ('Issue', (2, core_freeze(k2))), ('Lose', ())]
        try:
            ids = walk(gb, acts)
        except KeyError:
            continue
        drv = CallsDriver([1, 2])
        try:
            drv.do_Issue(1, k1)
            drv.conn.notifyOnDisconnect(lambda c, r, drv=drv, k2=k2: drv.do_Issue(2, k2))
            drv.do_Lose()
            dif = core.diff_states(gb.nodes[ids[-1]], drv.project())
        except Exception:
            dif = [('exception', 'none', core.traceback_str()[-300:])]
        nsync += 1
        if dif:
            chk.violation('a call issued from a disconnect callback while the loss is handled: impl differs from model in %s' % (
                ','.join(sorted(set(d[0] for d in dif)))), dict(kind='spec->code call from disconnect callback', module='c08', cfg=k2,
                                                                  diff=[(a, repr(b), repr(c)) for a, b, c in dif]))
    chk.traces += nsync
    chk.notes['synchronous_replies'] = nsync
    # 3. code -> spec: random executions with the full alphabet, larger than the model constants
    ntr = 1500 if thorough else 250
    traces = []
    sizes = [2, 3, 5, 8, 12] if not thorough else [2, 3, 5, 8, 12, 20, 40]
    for i in range(ntr):
        n = sizes[i % len(sizes)]
        try:
            traces.append((n, record(rng, n, 4 * n + 6)))
        except Exception as ex:
            chk.violation('recording driver: implementation raised %s' % type(ex).__name__,
                          dict(kind='exception', module='c08', trace=core.traceback_str()))
            if len(chk.violations) > 3:
                return chk.finish(rule='aborted: implementation raises while being driven')
    for n in sizes:
        batch = [t for m, t in traces if m == n]
        core.validate_and_report(chk, BASE, OBS, ACTIONS, batch, trace_cfg(n), INVS, 'c08',
                                 {'ncalls': n}, 'N=%d' % n)
    chk.sample({'recorded_trace_actions': [a for a, s in traces[0][1]][:12]})
    # 4. binding canary: corrupt one recorded field, the spec must reject it
    k0 = {'dl': False, 'ret': 'nocheck', 'nr': False}
    tr = [list(x) for x in rerecord({'ncalls': 2}, [('Issue', (1, k0)), ('Issue', (2, k0)), ('Return', (1, 'one'))])]
    st = dict(tr[-1][1])
    fired = [list(x) for x in st['fired']]
    o = dict(fired[0][0])
    o['from'] = 2
    fired[0] = [o]
    st['fired'] = tuple(tuple(x) for x in fired)
    tr[-1] = (tr[-1][0], st)
    rej, _ = core.validate_traces('MC_Calls', OBS, [[tuple(x) for x in tr]], ACTIONS, cfg_consts=trace_cfg(2), invs=[], nproc=1)
    chk.canary = {'what': 'completion attributed to another call in one recorded state', 'rejected': bool(rej)}
    chk.assumptions = [
        'Twisted task.Clock stands in for the reactor (txdbus.client.reactor is replaced)',
        'pending table read from conn._pendingCalls (bookkeeping clause of the property)',
        'TLC explores N<=4 calls exhaustively; larger N only through recorded random executions']
    return chk.finish(
        rule='TLC model-checks Calls.tla (N=2 full alphabet, N=3/4 interleavings); every bounded path of the '
             'N=3 graph and one path per edge is replayed into a real DBusClientConnection comparing '
             'status/table/timers/completions after each callback; random executions with up to 12 (40) calls '
             'are recorded and validated by TLC against the same spec with all invariants',
        exhaustive=False)
