"""C10 - every call to an exported object gets exactly one correctly addressed reply.
Spec: spec/Objects.tla; the catalogue of methods and the call space are generated here (ObjectsData)."""
import random

from twisted.internet import defer

from . import fakes  # noqa: F401  (installs the quiet log observer, repo path)
from . import core, tlc
from .tlaval import to_tla

from txdbus import objects, interface, message

ACTIONS = {'Incoming': ('c',), 'Fire': ('id', 'ok'), 'FireShared': ('ok',)}
KNOWN_SHARED = 'a failed Deferred shared by several calls: only the first caller gets the failure, the others a MarshallingError'
OBS = ['ran', 'open', 'replies']

I0, I1, I2 = 'org.v.I0', 'org.v.I1', 'org.v.I2'
# key: (iface, member, in sig, out sig, kind, reply tag, order of the interface in getInterfaces())
CAT = {
    'Val': (I1, 'Val', 's', 's', 'value', 'Val', 1),
    'Multi': (I1, 'Multi', '', 'si', 'value', 'Multi', 1),
    'Arr': (I1, 'Arr', '', 'as', 'value', 'Arr', 1),
    'Struct': (I1, 'Struct', '', '(si)', 'value', 'Struct', 1),
    'NoneRet': (I1, 'NoneRet', '', '', 'value', 'NoneRet', 1),
    'Defer': (I1, 'Defer', 's', 's', 'deferred', 'Defer', 1),
    # one Deferred for all calls that arrive before it fires (a coalescing cache)
    'Shared': (I1, 'Shared', '', 's', 'shared', 'Shared', 1),
    'RaiseNamed': (I1, 'RaiseNamed', '', '', 'raise', 'Err.Named', 1),
    # (declared arguments: a string and a dictionary - braces in the signature the InvalidArgs text quotes)
    'RaiseUnnamed': (I1, 'RaiseUnnamed', 'sa{sv}', 's', 'raise', 'Err.Unnamed', 1),
    'RaiseBadName': (I1, 'RaiseBadName', '', '', 'raise', 'Err.BadName', 1),
    'RaiseNul': (I1, 'RaiseNul', '', '', 'raise', 'Err.Nul', 1),
    # both at once: a name that is no DBus error name and a text that cannot go on the wire as it is
    'RaiseBadNameNul': (I1, 'RaiseBadNameNul', '', '', 'raise', 'Err.BadNameNul', 1),
    # an exception that cannot even be turned into text: the caller still gets its one error reply
    'RaiseMute': (I1, 'RaiseMute', '', '', 'raise', 'Err.Mute', 1),
    # an exception class that lives inside the exported class: named by its own name, like any other
    'RaiseNested': (I1, 'RaiseNested', '', '', 'raise', 'Err.Nested', 1),
    # an exception text that cannot be encoded as it is (a lone surrogate, as in a file name read with surrogateescape)
    'RaiseSurrogate': (I1, 'RaiseSurrogate', '', '', 'raise', 'Err.Surrogate', 1),
    # a member of the object's own interface that is called like a member of a standard interface: a call that names
    # no interface means this one
    'Ping': (I1, 'Ping', '', 's', 'value', 'Ping', 1),
    'Unenc': (I1, 'Unenc', '', 'u', 'unencodable', 'Err.Unencodable', 1),
    'Arity': (I1, 'Arity', '', 'us', 'unencodable', 'Err.Unencodable', 1),
    'Caller': (I1, 'Caller', '', 's', 'value', 'Caller', 1),
    # the same request for the caller's name on a method wrapped by a decorator (inlineCallbacks) ...
    'CallerIC': (I1, 'CallerIC', '', 's', 'value', 'CallerIC', 1),
    # ... and spelled as a keyword-only parameter
    'CallerKW': (I1, 'CallerKW', '', 's', 'value', 'CallerKW', 1),
    'Both1': (I1, 'Both', '', 's', 'value', 'Both1', 1),
    'Both2': (I2, 'Both', '', 's', 'value', 'Both2', 2),
    'Old': (I0, 'Old', 's', 's', 'value', 'Old', 3),
    # bound by decorator in the BASE class, on an interface for which the subclass has decorator bindings of its own
    'Inh': (I1, 'Inh', '', 's', 'value', 'Inh', 1),
    # bound by decorator in a plain helper class listed AFTER the DBusObject-derived base: class Sub(Base, Helper)
    'Mix': (I1, 'Mix', '', 's', 'value', 'Mix', 1),
}


class NamedError(Exception):
    dbusErrorName = 'org.v.Err.Named'


class DeferredError(Exception):
    dbusErrorName = 'org.v.Err.Deferred'


class BadNameError(Exception):
    dbusErrorName = 'not a valid name'


class MuteError(Exception):
    def __str__(self):
        raise RuntimeError('no text')


def build():
    def m(key):
        iface, member, sin, sout, kind, tag, order = CAT[key]
        return interface.Method(member, arguments=sin, returns=sout)
    i0 = interface.DBusInterface(I0, m('Old'), noRegister=True)
    i1 = interface.DBusInterface(I1, *[m(k) for k in CAT if CAT[k][0] == I1], noRegister=True)
    i2 = interface.DBusInterface(I2, m('Both2'), noRegister=True)

    class Base(objects.DBusObject):
        dbusInterfaces = [i0]

        def __init__(self, path, log):
            objects.DBusObject.__init__(self, path)
            self.log = log

        def dbus_Old(self, s):
            self.log('Old', (s,), None)
            return 'old:' + s

        @objects.dbusMethod(I1, 'Inh')
        def inherited(self):
            # (the subclass overrides this implementation without repeating the decorator: the override is what runs)
            self.log('InhBase', (), None)
            return 'inh of the base class'

    class Helper:
        @objects.dbusMethod(I1, 'Mix')
        def mixed_in(self):
            self.log('Mix', (), None)
            return 'mix'

    class Sub(Base, Helper):
        dbusInterfaces = [i1, i2]

        def inherited(self):
            self.log('Inh', (), None)
            return 'inh'

        def dbus_Old(self, s, dbusCaller=None):
            # the base class implements this member without asking for the caller; this override asks for it
            self.log('Old', (s,), None)
            return 'old:' + s if isinstance(dbusCaller, str) and dbusCaller.startswith(':') else 'old, and no caller given'

        def dbus_Val(self, s):
            self.log('Val', (s,), None)
            return 'v:' + s

        def dbus_Multi(self):
            self.log('Multi', (), None)
            return ('m', 7)

        def dbus_Arr(self):
            self.log('Arr', (), None)
            return ['solo']

        def dbus_Struct(self):
            self.log('Struct', (), None)
            return ('t', 3)

        def dbus_NoneRet(self):
            self.log('NoneRet', (), None)

        def dbus_Shared(self):
            self.log('Shared', (), None, 'shared')
            return self.shared()

        def dbus_Defer(self, s):
            d = defer.Deferred()
            self.log('Defer', (s,), None, d)
            return d

        def dbus_RaiseNamed(self):
            self.log('RaiseNamed', (), None)
            raise NamedError('boom')

        def dbus_RaiseUnnamed(self, s, options):
            self.log('RaiseUnnamed', (s,), None)
            raise ValueError('bad')

        def dbus_RaiseBadName(self):
            self.log('RaiseBadName', (), None)
            raise BadNameError('worse')

        def dbus_RaiseBadNameNul(self):
            self.log('RaiseBadNameNul', (), None)
            raise BadNameError('wor\0se')

        class Locked(Exception):
            pass

        def dbus_RaiseNested(self):
            self.log('RaiseNested', (), None)
            raise self.Locked('shut')

        def dbus_RaiseSurrogate(self):
            self.log('RaiseSurrogate', (), None)
            raise LookupError('no such file: caf\udce9')

        def dbus_Ping(self):
            self.log('Ping', (), None)
            return 'own ping'

        def dbus_RaiseMute(self):
            self.log('RaiseMute', (), None)
            raise MuteError()

        def dbus_RaiseNul(self):
            self.log('RaiseNul', (), None)
            raise Exception('nu\0l')

        def dbus_Unenc(self):
            self.log('Unenc', (), None)
            return 'not a number'

        def dbus_Arity(self):
            self.log('Arity', (), None)
            return (3,)

        def dbus_Caller(self, dbusCaller=None):
            self.log('Caller', (), dbusCaller)
            return dbusCaller

        @defer.inlineCallbacks
        def dbus_CallerIC(self, dbusCaller=None):
            self.log('CallerIC', (), dbusCaller)
            yield defer.succeed(None)
            defer.returnValue(dbusCaller)

        def dbus_CallerKW(self, *, dbusCaller=None):
            self.log('CallerKW', (), dbusCaller)
            return dbusCaller

        @objects.dbusMethod(I1, 'Both')
        def both_one(self, dbusCaller=None):
            self.log('Both1', (), dbusCaller)
            return 'one:' + str(dbusCaller)

        @objects.dbusMethod(I2, 'Both')
        def both_two(self):
            self.log('Both2', (), None)
            return 'two'
    Sub.BaseClass = Base
    return Sub


def call_space(full):
    cs = []

    def c(path, iface, member, sigok, noreply):
        cs.append({'path': path, 'iface': iface, 'member': member, 'sigok': sigok, 'noreply': noreply})
    keys = list(CAT) if full else ['Defer', 'Val', 'Both1', 'Both2', 'Shared']
    for k in keys:
        iface, member = CAT[k][0], CAT[k][1]
        c('/obj', iface, member, True, False)
        c('/obj', iface, member, True, True)
        if full:
            c('/obj', iface, member, False, False)
            c('/obj', '', member, True, False)
    if full:
        c('/nope', I1, 'Val', True, False)
        c('/obj', I2, 'Val', True, False)          # an interface of the object that lacks the member
        c('/obj', 'x.Unknown', 'Val', True, False)
        c('/obj', I1, 'Nope', True, False)
        c('/obj', '', 'Nope', True, False)
        c('/obj/deeper', '', 'Val', True, False)
    return cs


def data_module(full):
    rows = ['"%s" :> [iface |-> "%s", member |-> "%s", kind |-> "%s", reply |-> "%s", order |-> %d]' % (
        k, v[0], v[1], v[4], v[5], v[6]) for k, v in CAT.items()]
    cs = ', '.join(to_tla(x) for x in call_space(full))
    return '---- MODULE ObjectsData ----\nEXTENDS TLC\nCatalog == %s\nCallSpace == {%s}\n====\n' % (' @@ '.join(rows), cs)


class Conn:
    def __init__(self):
        self.sent = []

    def sendMessage(self, m):
        self.sent.append(m)


def find_key(c):
    cands = [k for k, v in CAT.items() if v[1] == c['member'] and (c['iface'] == '' or v[0] == c['iface'])]
    return sorted(cands, key=lambda k: CAT[k][6])[0] if cands else None


class ObjectsDriver:
    def __init__(self):
        self.conn = Conn()
        self.h = objects.DBusObjectHandler(self.conn)
        self.runs = []
        self.cur = None
        self.deferreds = {}
        self.shared_d = None
        self.sharers = set()
        self.o = build()('/obj', self._log)
        self.o.shared = self._shared
        # the path has a history: another object lived there and served a call before this one replaced it
        pre_if = interface.DBusInterface('org.v.Pre', interface.Method('Val', arguments='s', returns='s'), noRegister=True)

        class Pre(objects.DBusObject):
            dbusInterfaces = [pre_if]

            def dbus_Val(self, s):
                return 'pre'
        self.h.exportObject(Pre('/obj'))
        pc = message.MethodCallMessage('/obj', 'Val', interface='org.v.Pre', destination=':1.2', signature='s', body=['x'])
        ppm = message.parseMessage(pc.rawMessage, [])
        ppm.sender = ':1.3'
        self.h.handleMethodCallMessage(ppm)
        # ... and then an object of the BASE class, which also served a call (the member the subclass overrides)
        self.h.exportObject(type(self.o).BaseClass('/obj', lambda *a, **k: None))
        pc = message.MethodCallMessage('/obj', 'Old', interface=I0, destination=':1.2', signature='s', body=['x'])
        ppm = message.parseMessage(pc.rawMessage, [])
        ppm.sender = ':1.3'
        self.h.handleMethodCallMessage(ppm)
        self.h.exportObject(self.o)
        # the same object is exported on a second connection of the process as well, afterwards: replies still go out
        # on the connection the call came in on
        self.conn2 = Conn()
        self.h2 = objects.DBusObjectHandler(self.conn2)
        self.h2.exportObject(self.o)
        # ... and a third connection of the process exports ANOTHER object at the same path: every connection has its own
        # table of exported objects
        self.h3 = objects.DBusObjectHandler(Conn())
        self.h3.exportObject(type(self.o).BaseClass('/obj', lambda *a, **k: None))
        del self.conn.sent[:]
        self.calls = []          # (call record, serial, sender, arg)
        self.seen = 0

    def _log(self, key, args, caller, d=None):
        self.runs.append((self.cur, key, args, caller))
        if d == 'shared':
            self.sharers.add(self.cur)
        elif d is not None:
            self.deferreds[self.cur] = d

    def _shared(self):
        if self.shared_d is None:
            self.shared_d = defer.Deferred()
        return self.shared_d

    def apply(self, name, args):
        if name == 'Incoming':
            c = args[0]
            cid = len(self.calls) + 1
            key = find_key(c)
            sin = CAT[key][2] if key else 's'
            arg = 'a%d' % cid
            if c['sigok']:
                sig, body = (sin or None), (([arg, {}] if sin == 'sa{sv}' else [arg]) if sin else None)
            else:
                sig, body = ('i', [5]) if sin != 'i' else ('s', ['x'])
            sender = ':1.5%d' % cid
            mc = message.MethodCallMessage(c['path'], c['member'], interface=c['iface'] or None, destination=':1.2',
                                           signature=sig, body=body, expectReply=not c['noreply'],
                                           autoStart=(cid % 2 == 0))          # NO_AUTO_START on every other call
            mc.serial = 40 + cid % 2            # every caller numbers its own messages: serials collide across callers
            mc._marshal(False)
            pm = message.parseMessage(mc.rawMessage, [])
            pm.sender = sender
            self.calls.append((c, pm.serial, sender, arg))
            self.cur = cid
            try:
                self.h.handleMethodCallMessage(pm)
            finally:
                self.cur = None
        elif name == 'FireShared':
            d, self.shared_d = self.shared_d, None
            self.sharers = set()
            if args[0]:
                d.callback('sh')
            else:
                d.errback(DeferredError('later'))
        elif name == 'Fire':
            cid, ok = args
            d = self.deferreds.pop(cid)
            arg = self.calls[cid - 1][3]
            gone = cid % 2 == 0 and '/obj' in self.h.exports
            if gone:
                # the object is withdrawn while the call is still being worked on (a Close() that finishes later): the
                # caller is still owed its reply
                self.h.unexportObject('/obj')
            if ok:
                d.callback('d:' + arg)
            else:
                d.errback(DeferredError('later'))
            if gone:
                self.h.exportObject(self.o)
        else:
            raise ValueError(name)

    def tag_of(self, m, cid):
        c, serial, sender, arg = self.calls[cid - 1]
        if m._messageType == 3:
            n = m.error_name
            text = m.body[0] if m.body else None
            short = {'org.freedesktop.DBus.Error.UnknownObject': 'UnknownObject',
                     'org.freedesktop.DBus.Error.UnknownMethod': 'UnknownMethod',
                     'org.freedesktop.DBus.Error.InvalidArgs': 'InvalidArgs'}.get(n)
            if short:
                return short
            if n == 'org.v.Err.Named' and text == 'boom':
                return 'Err.Named'
            if n == 'org.v.Err.Deferred' and text == 'later':
                return 'Err.Deferred'
            if n == 'org.txdbus.PythonException.ValueError' and text == 'bad':
                return 'Err.Unnamed'
            if n == 'org.txdbus.InvalidErrorName' and text and text.endswith('worse'):
                return 'Err.BadName'
            if n == 'org.txdbus.InvalidErrorName' and text and 'wor' in text and text.endswith('se') and '\0' not in text:
                return 'Err.BadNameNul'
            if n == 'org.txdbus.PythonException.Exception' and text and 'nu' in text and text.endswith('l') and '\0' not in text:
                return 'Err.Nul'
            if n == 'org.txdbus.PythonException.Locked' and text == 'shut':
                return 'Err.Nested'
            if n == 'org.txdbus.PythonException.LookupError' and isinstance(text, str) and 'no such file' in text:
                return 'Err.Surrogate'
            if n == 'org.txdbus.PythonException.MuteError' and isinstance(text, str):
                return 'Err.Mute'
            key = find_key(c)
            if key in ('Unenc', 'Arity') and n.startswith('org.txdbus.PythonException.'):
                return 'Err.Unencodable'
            if key == 'Shared' and n == 'org.txdbus.PythonException.MarshallingError':
                return 'Err.SharedLost'
            return '?error %s %r' % (n, text)
        key = find_key(c)
        want = {'Val': ['v:' + arg], 'Multi': ['m', 7], 'Arr': [['solo']], 'Struct': [['t', 3]], 'NoneRet': None,
                'Defer': ['d:' + arg], 'Caller': [sender], 'CallerIC': [sender], 'CallerKW': [sender], 'Both1': ['one:' + sender], 'Both2': ['two'],
                'Old': ['old:' + arg], 'Inh': ['inh'], 'Mix': ['mix'], 'Shared': ['sh'], 'Ping': ['own ping']}.get(key, '?')
        body = m.body if m.body else None
        sig_ok = (m.signature or '') == CAT[key][3] if key else False
        return key if body == want and sig_ok else '?return %r sig %r' % (m.body, m.signature)

    def project(self):
        replies = {cid: [] for cid in range(1, len(self.calls) + 1)}
        stray = []
        for m in self.conn.sent:
            pm = message.parseMessage(m.rawMessage, [])
            if pm._messageType not in (2, 3):
                continue
            ids = [i for i, (c, serial, sender, arg) in enumerate(self.calls, 1)
                   if serial == pm.reply_serial and sender == pm.destination]
            if not ids:
                ids = [-i for i, (c, serial, sender, arg) in enumerate(self.calls, 1) if serial == pm.reply_serial][:1]
            if not ids:
                stray.append(pm)
                continue
            if ids[0] < 0:                     # answers that serial, but is addressed to somebody else
                replies[-ids[0]].append({'k': 'return' if pm._messageType == 2 else 'error', 'tag': '?misaddressed', 'forcall': ids[0]})
                continue
            cid = ids[0]
            sender = self.calls[cid - 1][2]
            replies[cid].append({'k': 'return' if pm._messageType == 2 else 'error', 'tag': self.tag_of(pm, cid),
                                 'forcall': cid if pm.destination == sender else -cid})
        ran = []
        for cid, (c, serial, sender, arg) in enumerate(self.calls, 1):
            rs = [r for r in self.runs if r[0] == cid]
            n = len(rs)
            key = find_key(c)
            for (_, k, args, caller) in rs:
                want_args = (arg,) if key and CAT[key][2] else ()
                want_caller = sender if key in ('Caller', 'CallerIC', 'CallerKW', 'Both1') else None
                if k != key or args != want_args or caller != want_caller:
                    n = 100 + n        # ran, but the wrong implementation / arguments / caller
            ran.append(n)
        if stray:
            ran.append(-len(stray))
        wrong = [m for m in self.conn2.sent if m._messageType in (2, 3)]
        if wrong:
            ran.append(-1000 - len(wrong))         # replies that left on the other connection
        return {'ran': tuple(ran), 'open': frozenset(self.deferreds) | frozenset(self.sharers), 'replies': tuple(tuple(replies[i]) for i in sorted(replies))}


def make_driver(params, acts):
    return ObjectsDriver()


replay_file = core.replay_file


def trace_cfg(params=None):
    return 'CONSTANTS\n MaxCalls = 50\n SharedFailureOnce = TRUE\n'


def rerecord(params, acts):
    drv = ObjectsDriver()
    tr = [({'n': 'Init'}, drv.project())]
    for n, a in acts:
        drv.apply(n, a)
        rec = {'n': n}
        rec.update(dict(zip(ACTIONS[n], a)))
        tr.append((rec, drv.project()))
    return tr


INVS = ['AtMostOne', 'Addressed', 'RanIff', 'ExactlyOneWhenSettled', 'NoUserCodeOnError']


def run(tier, seed):
    chk = core.Check('C10', tier, seed)
    rng = random.Random(seed)
    thorough = tier == 'thorough'
    cfg = 'SPECIFICATION Spec\nCONSTANTS\n MaxCalls = %d\n SharedFailureOnce = TRUE\n' + ''.join('INVARIANT %s\n' % i for i in INVS) + 'CHECK_DEADLOCK FALSE\n'
    for label, full, mc in (('every call shape', True, 2 if thorough else 1), ('interleaved deferreds', False, 4 if thorough else 3)):
        extra = {'ObjectsData.tla': data_module(full), 'o.cfg': cfg % mc}
        res, g = tlc.dump_graph('Objects', 'o.cfg', extra=extra, timeout=600)
        chk.tlc_stats(res, 'Objects: ' + label)
        if not res.ok:
            chk.violation('model: Objects(%s) %s %s' % ((label,) + res.violation), dict(kind='TLC', trace=repr(res.trace[-2:])))
        chk.notes[label + ' graph'] = [len(g.nodes), g.nedges]
        paths = list(core.edge_cover_paths(g))
        if len(paths) > (60000 if thorough else 5000):
            paths = rng.sample(paths, 60000 if thorough else 5000)
        core.replay_paths(chk, g, paths, lambda acts: ObjectsDriver(), label + ' edges', 'c10', {})
        if not full:
            core.replay_paths(chk, g, list(core.random_walks(g, 3000 if thorough else 600, 9, rng)), lambda acts: ObjectsDriver(),
                              label + ' walks', 'c10', {})
    # known finding (findings/known_findings.json): a failed Deferred shared by several calls.  The model as the code
    # behaves (SharedFailureOnce) violates SharedFailureUniform - checked, so that the finding stays tied to the model -
    # and the real objects are probed: the day the second caller gets the failure too, the listed finding no longer
    # shows and the as-code model stops matching (an unlisted violation says so)
    res, _ = tlc.run('Objects', 'k.cfg', extra={'ObjectsData.tla': data_module(False), 'k.cfg': (cfg % 3).replace(
        'CHECK_DEADLOCK', 'INVARIANT SharedFailureUniform\nCHECK_DEADLOCK')}, timeout=300)
    chk.tlc_stats(res, 'Objects: SharedFailureUniform under the as-code deviation (must fail)')
    chk.notes['deviation_SharedFailureOnce_violates_SharedFailureUniform'] = res.violation is not None
    if res.violation is None:
        raise core.Machinery('Objects: SharedFailureOnce no longer violates SharedFailureUniform')
    drv = ObjectsDriver()
    shared_call = [c for c in call_space(False) if c['member'] == 'Shared' and not c['noreply']][0]
    drv.apply('Incoming', (shared_call,))
    drv.apply('Incoming', (shared_call,))
    drv.apply('FireShared', (False,))
    tags = [r[0]['tag'] if r else None for r in drv.project()['replies']]
    if tags == ['Err.Deferred', 'Err.SharedLost']:
        chk.violation(KNOWN_SHARED, dict(kind='known finding probe', module='c10', tags=tags))
    elif tags != ['Err.Deferred', 'Err.Deferred']:
        chk.violation('a failed Deferred shared by two calls is answered %r' % (tags,), dict(kind='probe', module='c10', tags=tags))
    # code -> spec: longer random call streams over the full call space with Deferreds firing at random
    space = call_space(True)
    batch = []
    for _ in range(3000 if thorough else 60):
        drv = ObjectsDriver()
        tr = [({'n': 'Init'}, drv.project())]
        try:
            for _ in range(rng.randint(4, 14)):
                if drv.sharers and rng.random() < 0.25:
                    a = ('FireShared', (rng.random() < 0.6,))
                elif drv.deferreds and rng.random() < 0.35:
                    a = ('Fire', (rng.choice(sorted(drv.deferreds)), rng.random() < 0.6))
                else:
                    a = ('Incoming', (rng.choice(space),))
                drv.apply(*a)
                rec = {'n': a[0]}
                rec.update(dict(zip(ACTIONS[a[0]], a[1])))
                tr.append((rec, drv.project()))
        except Exception:
            chk.violation('recording: implementation raised', dict(kind='exception', module='c10', trace=core.traceback_str()))
            break
        batch.append(tr)
    core.validate_and_report(chk, 'Objects', OBS, ACTIONS, batch, trace_cfg(), INVS, 'c10', {}, 'random', nproc=8,
                             extra={'ObjectsData.tla': data_module(True)})
    chk.sample({'recorded': [a for a, s in batch[0]][:4]})
    tr = [list(x) for x in rerecord({}, [('Incoming', (call_space(True)[0],))])]
    for j, (a, st) in enumerate(tr):
        if any(st['replies']):
            reps = [list(x) for x in st['replies']]
            k = [i for i, x in enumerate(reps) if x][0]
            reps[k] = reps[k] + reps[k]
            tr[j] = (a, dict(st, replies=tuple(tuple(x) for x in reps)))
            break
    rej, _ = core.validate_traces('Objects', OBS, [[tuple(x) for x in tr]], ACTIONS, cfg_consts=trace_cfg(), nproc=1,
                                  extra={'ObjectsData.tla': data_module(True)})
    chk.canary = {'what': 'a reply duplicated in one recorded state', 'rejected': bool(rej)}
    chk.assumptions = ['one exported object with a catalogue of 16 method bindings (dbus_<name>, decorator bindings for the same '
                       'member on two interfaces, inherited interface, dbusCaller users, every outcome kind)',
                       'calls flagged no-reply that are rejected before dispatch are outside the model (the property allows zero or '
                       'one reply there)', 'calls reach the handler as parsed messages with the sender the bus would stamp']
    return chk.finish(
        rule='TLC explores every call shape (right / missing / wrong / unknown interface, unknown member, wrong signature, unknown '
             'path, reply expected or not) against a catalogue of 16 method bindings, and all interleavings of up to 3 calls with '
             'Deferreds firing or failing later; every edge and random walks are replayed through handleMethodCallMessage comparing '
             'invocation counts / arguments / caller and every reply (type, name, text, body, signature, destination, serial); '
             'random streams are validated by TLC',
        exhaustive=True)
