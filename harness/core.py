"""Generic machinery shared by all property checks:

 * path enumeration over a dumped TLC state graph (spec -> code),
 * generic trace-validation module generation and batched TLC validation (code -> spec),
 * evidence / replay / known-finding bookkeeping,
 * the Check context object each property module fills in.
"""
import json
import os
import random
import subprocess
import sys
import time
import hashlib
from concurrent.futures import ThreadPoolExecutor

from . import tlc, tlaval
from .tlaval import to_tla, norm

ROOT = tlc.ROOT
REPO = os.environ.get('TXDBUS_REPO', '/repo')


class Machinery(Exception):
    """The checking machinery itself failed (exit code 2)."""


# ----------------------------------------------------------------------------------------------
# graph walking


def state_key(st, skip=()):
    return norm({k: v for k, v in st.items() if k not in skip})


class EPath(list):
    """A path through a dumped graph: the list of node ids, plus `labs`, the labels of the edges
    taken (parallel edges between the same two states carry different action parameters, so the node
    ids alone do not determine the actions)."""
    labs = None

    def __init__(self, nodes, labs):
        list.__init__(self, nodes)
        self.labs = list(labs)


def paths_dfs(g, max_depth, max_noop=0, limit=None, skip=()):
    """Every path from an initial node up to max_depth edges, with at most max_noop edges that do
    not change the state (ignoring `act`).  Yields EPaths (first node = initial).  Only
    maximal paths (no extension possible within the bounds) are yielded; their prefixes are
    covered by replaying the path step by step."""
    keys = {n: state_key(s, skip) for n, s in g.nodes.items()}
    count = 0
    for i in g.init:
        stack = [(i, [i], [], 0)]
        while stack:
            n, path, labs, noop = stack.pop()
            ext = False
            if len(path) - 1 < max_depth:
                for lab, d in g.succ.get(n, ()):
                    isnoop = keys[d] == keys[n]
                    if isnoop and noop >= max_noop:
                        continue
                    ext = True
                    stack.append((d, path + [d], labs + [lab], noop + (1 if isnoop else 0)))
            if not ext:
                yield EPath(path, labs)
                count += 1
                if limit and count >= limit:
                    return


def _bfs_tree(g):
    from collections import deque
    parent = {}
    dq = deque()
    for i in g.init:
        parent[i] = None
        dq.append(i)
    while dq:
        n = dq.popleft()
        for lab, d in g.succ.get(n, ()):
            if d not in parent:
                parent[d] = (n, lab)
                dq.append(d)
    return parent


def _prefix(parent, n):
    nodes, labs = [n], []
    while parent[n] is not None:
        n, lab = parent[n]
        nodes.append(n)
        labs.append(lab)
    return nodes[::-1], labs[::-1]


def edge_cover_paths(g):
    """For every edge of the graph (parallel edges included) one path (shortest prefix from an
    initial node) ending with it."""
    parent = _bfs_tree(g)
    for n, outs in g.succ.items():
        if n not in parent:
            continue
        pn, pl = _prefix(parent, n)
        for lab, d in outs:
            yield EPath(pn + [d], pl + [lab])


def edge_cover_tours(g, maxlen=40):
    """Edge cover with few, long paths.  States are taken in breadth-first order; while a state has an
    edge not yet covered a tour starts there (shortest prefix from an initial state), then keeps
    following uncovered edges; where the current state has none left it may hop over up to three
    covered edges towards a successor that has.  A tour ends after maxlen edges or when stuck.
    Every reachable edge, parallel edges included, lies on at least one tour.  Linear in the graph."""
    parent = _bfs_tree(g)
    todo = {n: list(range(len(outs) - 1, -1, -1)) for n, outs in g.succ.items() if n in parent and outs}
    for start in list(parent):              # insertion order of the BFS tree = breadth-first order
        while todo.get(start):
            nodes, labs = _prefix(parent, start)
            npre = len(labs)
            hops = 0
            while len(labs) - npre < maxlen:
                n = nodes[-1]
                if todo.get(n):
                    k = todo[n].pop()
                    lab, d = g.succ[n][k]
                    hops = 0
                else:
                    outs = g.succ.get(n, ())
                    nxt = [(lab, d) for lab, d in outs if todo.get(d) and d != n]
                    if not nxt or hops >= 3:
                        break
                    lab, d = nxt[0]
                    hops += 1
                nodes.append(d)
                labs.append(lab)
            while hops and labs:            # drop trailing hops that led nowhere
                nodes.pop()
                labs.pop()
                hops -= 1
            yield EPath(nodes, labs)


def random_walks(g, num, depth, rng):
    for _ in range(num):
        n = rng.choice(g.init)
        p, labs = [n], []
        for _ in range(depth):
            outs = g.succ.get(n)
            if not outs:
                break
            lab, n = rng.choice(outs)
            p.append(n)
            labs.append(lab)
        yield EPath(p, labs)


# ----------------------------------------------------------------------------------------------
# trace validation (code -> spec)

TRACE_TEMPLATE = r'''---- MODULE %(name)s ----
EXTENDS %(base)s, TLC, %(data)s
VARIABLES tid, l
TBindCur(r) == %(bindcur)s
TBindNxt(r) == %(bindnxt)s
TAct(a) == %(actdisj)s
TInit == \E t \in 1..Len(Traces) :
            /\ tid = t /\ l = 1
            /\ TBindCur(Traces[t][1].st)
            /\ %(initpred)s
TNext == /\ l < Len(Traces[tid])
         /\ l' = l + 1 /\ tid' = tid
         /\ TBindNxt(Traces[tid][l + 1].st)
         /\ TAct(Traces[tid][l + 1].act)
TSpec == TInit /\ [][TNext]_<<%(vars)s, tid, l>>
ASSUME TLCSet(1, [t \in 1..Len(Traces) |-> 0])
TReg == TLCSet(1, [TLCGet(1) EXCEPT ![tid] = IF @ < l THEN l ELSE @])
TBad == {t \in 1..Len(Traces) : TLCGet(1)[t] < Len(Traces[t])}
TPost == /\ TLCGet("stats").diameter >= 0
         /\ \A t \in TBad : PrintT(<<"REJECTED", t, TLCGet(1)[t], Len(Traces[t])>>)
         /\ TBad = {}
%(invs)s
====
'''


def _trace_modules(base, varnames, traces, initpred, actions, tag, invs=()):
    data = 'TraceData_%s' % tag
    name = 'Trace_%s' % tag
    rows = []
    for tr in traces:
        rows.append('<<' + ',\n'.join('[act |-> %s, st |-> %s]' % (to_tla(a), to_tla(s)) for a, s in tr) + '>>')
    datatxt = '---- MODULE %s ----\nEXTENDS TLC, Integers\nTraces == <<\n%s\n>>\n====\n' % (data, ',\n'.join(rows))
    txt = TRACE_TEMPLATE % dict(
        name=name, base=base, data=data,
        bindcur=' /\\ '.join('%s = r.%s' % (v, v) for v in varnames),
        bindnxt=' /\\ '.join("%s' = r.%s" % (v, v) for v in varnames),
        initpred=initpred, vars=', '.join(varnames),
        actdisj='FALSE' if not actions else ' \\/ '.join('(a.n = "%s" /\\ %s)' % (n, ('%s(%s)' % (n, ', '.join('a.' + p for p in ps))) if ps else n)
                             for n, ps in actions.items()),
        invs='')
    cfg = 'SPECIFICATION TSpec\nCONSTRAINT TReg\nPOSTCONDITION TPost\nCHECK_DEADLOCK FALSE\n'
    for i in invs:
        cfg += 'INVARIANT %s\n' % i
    return {name + '.tla': txt, data + '.tla': datatxt, name + '.cfg': cfg}, name


def validate_traces(base, varnames, traces, actions, cfg_consts='', initpred='Init',
                    invs=(), nproc=8, timeout=900, extra=None):
    """Validate recorded traces against module `base` (an MC_ module fixing the constants).
    traces: list of [(act, state_dict), ...].  Returns (rejected, stats) where rejected is a list of
    (trace_index, matched_len, total_len) and stats has states/transitions."""
    if not traces:
        return [], dict(states=0, transitions=0, wall=0.0)
    # a variable the harness could not observe in every recorded state is left for TLC to infer
    varnames = [v for v in varnames if all(v in st for tr in traces for _, st in tr)]
    nproc = max(1, min(nproc, len(traces)))
    chunks = [list(range(i, len(traces), nproc)) for i in range(nproc)]
    t0 = time.time()

    import re

    def run_batch(idx, tag):
        """validate traces[idx]; a TLC evaluation error (the recorded values have a shape the spec
        cannot even compare) is narrowed down by bisection and counts as a rejection of that trace"""
        mods, name = _trace_modules(base, varnames, [traces[i] for i in idx], initpred, actions, tag, invs)
        mods[name + '.cfg'] = mods[name + '.cfg'] + cfg_consts
        if extra:
            mods.update(extra)
        try:
            res, _ = tlc.run(name, name + '.cfg', workers=1, gc='serial', timeout=timeout, extra=mods)
            bad = res.violation and res.violation[0] != 'postcondition'
        except tlc.TLCError as ex:
            if 'Parsing or semantic analysis failed' in str(ex) or 'timeout' in str(ex):
                raise
            res, bad = None, True
        rej = []
        if res is not None:
            for m in re.finditer(r'<<"REJECTED", (\d+), (\d+), (\d+)>>', res.out):
                rej.append((idx[int(m.group(1)) - 1], int(m.group(2)), int(m.group(3))))
        if bad and not rej:
            if len(idx) == 1:
                return [(idx[0], 0, len(traces[idx[0]]))], 0, 0
            h = len(idx) // 2
            a = run_batch(idx[:h], tag + 'a')
            b = run_batch(idx[h:], tag + 'b')
            return a[0] + b[0], a[1] + b[1], a[2] + b[2]
        if res is not None and not res.ok and not rej:
            raise Machinery('trace validation: TLC not ok but no rejection printed\n' + res.out[-2000:])
        return rej, res.generated, res.distinct

    def one(ci):
        return run_batch(chunks[ci], 'c%d' % ci)
    with ThreadPoolExecutor(nproc) as ex:
        outs = list(ex.map(one, range(nproc)))
    rejected = sorted(r for o in outs for r in o[0])
    return rejected, dict(states=sum(o[2] for o in outs), transitions=sum(o[1] for o in outs),
                          wall=time.time() - t0)


# ----------------------------------------------------------------------------------------------
# check context: evidence, replays, findings


def repo_fingerprint():
    try:
        head = subprocess.run(['git', '-C', REPO, 'rev-parse', 'HEAD'], stdout=subprocess.PIPE).stdout.decode().strip()
        diff = subprocess.run(['git', '-C', REPO, 'diff', 'HEAD', '--', 'txdbus'], stdout=subprocess.PIPE).stdout
        return head, hashlib.sha1(diff).hexdigest()[:12] if diff else 'clean'
    except Exception:
        return 'unknown', 'unknown'


LAST_CHECK = None


class Check:
    """Accumulates what a check run covered and what it found."""

    def __init__(self, pid, tier, seed):
        global LAST_CHECK
        LAST_CHECK = self
        self.pid = pid
        self.tier = tier
        self.seed = seed
        self.t0 = time.time()
        self.states = 0
        self.transitions = 0
        self.traces = 0          # behaviours replayed into / recorded from the implementation
        self.evaluations = 0
        self.samples = []
        self.violations = []     # (key, replay_path)
        self.known_hits = []
        self.notes = {}
        self.assumptions = []
        self.canary = None
        self.models = []
        self._known = self._load_known()
        self._replay_n = 0

    # --- known findings
    def _load_known(self):
        p = os.path.join(ROOT, 'findings', 'known_findings.json')
        try:
            data = json.load(open(p))
        except FileNotFoundError:
            return []
        return [f for f in data.get('findings', []) if f.get('property') == self.pid and f.get('status') == 'open']

    def tlc_stats(self, res, label):
        self.states += res.distinct
        self.transitions += res.generated
        self.models.append(dict(model=label, distinct=res.distinct, generated=res.generated,
                                depth=res.depth, wall_s=round(res.wall, 2)))

    def sample(self, s):
        if len(self.samples) < 6:
            self.samples.append(s)

    def violation(self, key, detail):
        """Report a divergence.  `key` identifies the failing input/history class; known findings
        are matched on it."""
        for f in self._known:
            if f['key'] == key:
                if key not in self.known_hits:
                    self.known_hits.append(key)
                    print('KNOWN-FINDING: property=%s %s' % (self.pid, f['what']))
                return False
        self._replay_n += 1
        d = os.environ.get('TXV_REPLAY_DIR') or os.path.join(ROOT, 'replays')
        os.makedirs(d, exist_ok=True)
        path = os.path.join(d, '%s-%s-%d.json' % (self.pid, self.tier, self._replay_n))
        detail = dict(detail)
        detail.update(property=self.pid, key=key, seed=self.seed, tier=self.tier)
        with open(path, 'w') as fh:
            json.dump(detail, fh, indent=1, default=repr)
        if len(self.violations) < 20:
            print('VIOLATION property=%s replay=%s' % (self.pid, path))
            print('  ' + key)
        self.violations.append((key, path))
        return True

    def finish(self, rule, exhaustive=False, extra_cov=None):
        head, wt = repo_fingerprint()
        cov = dict(states=max(self.states, 0), transitions=max(self.transitions, 0),
                   traces_validated_against_impl=self.traces,
                   samples=self.samples or ['(none)'],
                   evaluations=max(self.evaluations, self.traces, 1),
                   distinct_nontrivial=max(self.notes.get('distinct_nontrivial', 0), 0),
                   rule=rule, exhaustive=bool(exhaustive), models=self.models,
                   canary=self.canary, repo_head=head, repo_worktree=wt,
                   known_findings_hit=self.known_hits)
        cov.update(extra_cov or {})
        for k, v in self.notes.items():
            cov.setdefault(k, v)
        ev = dict(property_id=self.pid, tier=self.tier, seed=self.seed, level='model_checking',
                  coverage=cov, assumptions=self.assumptions,
                  wall_s=round(time.time() - self.t0, 2), violations=len(self.violations))
        # TXV_EVIDENCE_DIR / TXV_REPLAY_DIR: experiments (seeded trees, trial runs) write elsewhere so that
        # evidence/ always describes a run against /repo itself
        evdir = os.environ.get('TXV_EVIDENCE_DIR') or os.path.join(ROOT, 'evidence')
        os.makedirs(evdir, exist_ok=True)
        with open(os.path.join(evdir, self.pid + '.json'), 'w') as fh:
            json.dump(ev, fh, indent=1, default=repr)
        if self.violations:
            return 1
        if self.states < 1 or self.transitions < 1:
            raise Machinery('no TLC state was explored')
        if self.canary is not None and not self.canary.get('rejected', False):
            raise Machinery('binding canary was accepted: %r' % (self.canary,))
        print('OK property=%s tier=%s states=%d transitions=%d impl_traces=%d wall=%.1fs%s' % (
            self.pid, self.tier, self.states, self.transitions, self.traces, time.time() - self.t0,
            (' known_findings=%d' % len(self.known_hits)) if self.known_hits else ''))
        return 0


def pick_canary(traces, mutate):
    """first trace of `traces` to which `mutate` applies (mutate returns the corrupted copy or None)"""
    for tr in traces:
        m = mutate([tuple(x) for x in tr])
        if m is not None:
            return m
    return None


def diff_states(model, impl):
    """Return list of (var, model_value, impl_value) that differ."""
    out = []
    for k in model:
        if k == 'act':
            continue
        if k not in impl:
            continue      # not observed
        if norm(model[k]) != norm(impl[k]):
            out.append((k, model[k], impl[k]))
    return out


# ----------------------------------------------------------------------------------------------
# generic spec->code replay and code->spec recording helpers


def path_actions(g, p):
    if isinstance(p, EPath):
        return list(p.labs)
    acts = []
    node = p[0]
    for nxt in p[1:]:
        lab = [l for l, d in g.succ[node] if d == nxt][0]
        acts.append(lab)
        node = nxt
    return acts


def step_compare(make_driver, acts, model_states):
    """Drive a fresh implementation instance through acts, comparing the projection with
    model_states[i] after step i (model_states[0] = initial).  Returns (failed_step or None,
    diff, impl_states)."""
    steps = []
    try:
        drv = make_driver(acts)
        st = drv.project()
    except Exception as ex:
        return 0, [('exception-in-setup', 'none', repr(ex))], [(('setup', ()), {'exception': traceback_str()})]
    dif = diff_states(model_states[0], st)
    if dif:
        return 0, dif, [(('Init', ()), st)]
    for i, lab in enumerate(acts, 1):
        try:
            drv.apply(lab[0], lab[1])
            st = drv.project()
        except Exception as ex:
            steps.append((lab, {'exception': traceback_str()}))
            return i, [('exception', 'none', repr(ex))], steps
        steps.append((lab, st))
        dif = diff_states(model_states[i], st)
        if dif:
            return i, dif, steps
    return None, [], steps


def traceback_str():
    import traceback
    return traceback.format_exc()[-1500:]


def replay_paths(chk, g, paths, make_driver, label, module, params, max_viol=5, state_map=None):
    """spec -> code for every path; reports divergences as violations with a self-contained replay.
    state_map: optional abstraction applied to the model states when the driver observes less."""
    n = 0
    for p in paths:
        acts = path_actions(g, p)
        states = [g.nodes[i] for i in p]
        if state_map:
            states = [state_map(s) for s in states]
        failed, dif, steps = step_compare(make_driver, acts, states)
        n += 1
        if failed is not None:
            aname = acts[failed - 1][0] if failed else 'Init'
            key = 'replay %s: after %s impl differs from model in %s' % (
                label, aname, ','.join(sorted(set(d[0] for d in dif))))
            chk.violation(key, dict(
                kind='spec->code', module=module, params=params, model=label, failed_step=failed,
                actions=[[a[0], to_tla(tuple(a[1]))] for a in acts],
                model_states=[to_tla({k: v for k, v in s.items()}) for s in states],
                diff=[(k, repr(a), repr(b)) for k, a, b in dif],
                impl_states=[(repr(a), {k: repr(v) for k, v in s.items()}) for a, s in steps]))
            if len(chk.violations) >= max_viol:
                break
        elif n <= 2:
            chk.sample({'replayed_path(%s)' % label: [[a[0]] + [repr(x) for x in a[1]] for a in acts]})
    chk.traces += n
    chk.notes[label + '_paths_replayed'] = n
    return n


def validate_and_report(chk, base, obs, actions, batch, cfg_consts, invs, module, params, label,
                        nproc=4, extra=None, initpred='Init'):
    """code -> spec for a batch of recorded traces [(act_record, state)...]."""
    rej, st = validate_traces(base, obs, batch, actions, cfg_consts=cfg_consts, invs=invs, nproc=nproc,
                              extra=extra, initpred=initpred)
    chk.states += st['states']
    chk.transitions += st['transitions']
    chk.traces += len(batch) - len(rej)
    for ti, matched, total in rej[:3]:
        tr = batch[ti]
        ev = tr[matched][0] if matched < len(tr) else {'n': '?'}
        chk.violation('trace (%s) rejected by %s at action %s' % (label, base, ev.get('n')), dict(
            kind='code->spec', module=module, params=params, matched=matched, total=total,
            event=repr(ev), state_before=repr(tr[matched - 1][1]) if matched else None,
            state_after=repr(tr[matched][1]) if matched < len(tr) else None,
            actions=[[a['n'], to_tla(tuple(a[k] for k in actions.get(a['n'], ())))] for a, s in tr[1:]]))
    return rej


def replay_file(path):
    """./check <id> --replay PATH : re-execute a stored divergence against the current tree."""
    import importlib
    d = json.load(open(path))
    mod = importlib.import_module('harness.' + d['module'])
    acts = [(n, tlaval.parse(a)) for n, a in d['actions']]
    if d['kind'] == 'spec->code':
        states = [tlaval.parse(s) for s in d['model_states']]
        failed, dif, steps = step_compare(lambda a: mod.make_driver(d['params'], a), acts, states)
        for (lab, st) in steps:
            print(lab, st)
        if failed is None:
            print('REPLAY: implementation now agrees with the model on this behaviour')
            return 0
        print('REPLAY: diverges at step %d: %s' % (failed, dif))
        print('VIOLATION property=%s replay=%s' % (d['property'], path))
        return 1
    else:
        tr = mod.rerecord(d['params'], acts)
        rej, _ = validate_traces(mod.BASE, mod.OBS, [tr], mod.ACTIONS, cfg_consts=mod.trace_cfg(d['params']),
                                 invs=getattr(mod, 'INVS', ()), nproc=1)
        if not rej:
            print('REPLAY: trace now accepted by the specification')
            return 0
        print('REPLAY: rejected again: matched %d of %d' % (rej[0][1], rej[0][2]))
        print('VIOLATION property=%s replay=%s' % (d['property'], path))
        return 1
