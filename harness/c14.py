"""C14 - built-in bus delivers each message to the right peer with the true sender.
Spec: spec/Bus.tla (routing part: SpecRouting)."""
import random

from . import core, tlc, fakes  # noqa: F401
from . import busdriver as bd
from . import c13

OBS = ['out']
BASE = 'MC_Bus'
ACTIONS = bd.ACTIONS
make_driver = c13.make_driver
rerecord = c13.rerecord
trace_cfg = c13.trace_cfg
replay_file = core.replay_file


def random_history(rng, nclients, nnames, steps):
    drv = bd.BusDriver(list(range(1, nclients + 1)))
    tr = [({'n': 'Init'}, drv.project())]
    used = 0
    for _ in range(steps):
        live = [c for c in drv.slots if drv.p[c] is not None]
        dead = [c for c in drv.slots if drv.p[c] is None]
        r = rng.random()
        if dead and (not live or r < 0.12):
            a = ('Hello', (rng.choice(dead),)) if rng.random() < 0.9 else ('BadFirst', (rng.choice(dead),))
            used += 1
        elif r < 0.18:
            a = ('Disconnect', (rng.choice(live),))
        elif r < 0.3:
            a = ('RequestName', (rng.choice(live), rng.randint(1, nnames), rng.random() < 0.6, rng.random() < 0.6, rng.random() < 0.3))
        elif r < 0.35:
            a = ('ReleaseName', (rng.choice(live), rng.randint(1, nnames)))
        elif r < 0.55:
            dest = ('n', rng.randint(1, nnames)) if rng.random() < 0.5 else ('u', rng.randint(1, max(1, used + 1)))
            a = ('Send', (rng.choice(live), dest, rng.choice(['call', 'return', 'error', 'signal']), rng.random() < 0.4))
        elif r < 0.62:
            a = ('ToBus', (rng.choice(live), rng.choice(['GetId', 'HelloAgain', 'NoSuchMethod', 'SignalToBus'] + sorted(bd.BUSCALLS))))
        elif r < 0.76:
            a = ('AddMatch', (rng.choice(live), rng.choice(['R1', 'R2', 'R3', 'R4', 'R5', 'R6', 'R7', 'R8'])))
        elif r < 0.84:
            a = ('RemoveMatch', (rng.choice(live), rng.choice(['R1', 'R2', 'R3', 'R4', 'R5', 'R6', 'R7', 'R8'])))
        else:
            a = ('Emit', (rng.choice(live), rng.choice(['S1', 'S2', 'S3'])))
        drv.apply(*a)
        rec = {'n': a[0]}
        rec.update(dict(zip(ACTIONS[a[0]], a[1])))
        tr.append((rec, drv.project()))
    return tr


def run(tier, seed):
    chk = core.Check('C14', tier, seed)
    rng = random.Random(seed)
    thorough = tier == 'thorough'
    params = {'clients': 2, 'names': 1}
    cfgtxt = c13.cfg([1, 2], [1], 3, spec='SpecRouting', props=False, rules='{"R2", "R5", "R6", "R7"}', sigs='{"S1", "S2"}', match='cMatch',
                     maxrules=1)
    cfgtxt = cfgtxt.replace('CHECK_DEADLOCK FALSE\n', 'PROPERTY NeverReused\nCHECK_DEADLOCK FALSE\n')
    res, g = tlc.dump_graph(BASE, 'b.cfg', extra={'b.cfg': cfgtxt}, timeout=900)
    chk.tlc_stats(res, 'Bus routing: 2 clients (3 connections), 1 name, 2 rules, 2 signals')
    if not res.ok:
        chk.violation('model: Bus(routing) %s %s' % res.violation, dict(kind='TLC', trace=repr(res.trace[-3:])))
    chk.notes['graph'] = [len(g.nodes), g.nedges]
    paths = list(core.edge_cover_paths(g))
    if len(paths) > (60000 if thorough else 5000):
        paths = rng.sample(paths, 60000 if thorough else 5000)
    core.replay_paths(chk, g, paths, lambda a: make_driver(params, a), 'edges', 'c14', params)
    core.replay_paths(chk, g, list(core.random_walks(g, 5000 if thorough else 700, 14, rng)), lambda a: make_driver(params, a),
                      'walks', 'c14', params)
    if thorough:
        cfg3 = c13.cfg([1, 2, 3], [1], 3, spec='SpecRouting', props=False, rules='{"R2", "R5", "R6", "R7"}', sigs='{"S1", "S2"}', match='cMatch',
                       maxrules=1)
        res, _ = tlc.run(BASE, 'b.cfg', extra={'b.cfg': cfg3}, timeout=3000)
        chk.tlc_stats(res, 'Bus routing: 3 clients')
        if not res.ok:
            chk.violation('model: Bus(routing, 3 clients) %s %s' % res.violation, dict(kind='TLC', trace=repr(res.trace[-3:])))
    # code -> spec: random histories, up to 4 clients, 2 names, 4 rules, 3 signals, forged senders, name changes
    for nclients in ((3, 4) if not thorough else (3, 4, 4)):
        p2 = {'clients': nclients, 'names': 2}
        batch = []
        for _ in range(250 if thorough else 40):
            try:
                batch.append(random_history(rng, nclients, 2, rng.randint(10, 35)))
            except Exception:
                chk.violation('recording: implementation raised', dict(kind='exception', module='c14', trace=core.traceback_str()))
                break
        core.validate_and_report(chk, BASE, OBS, ACTIONS, batch, trace_cfg(p2), ['Fresh', 'UniqueIds', 'NoGhostDelivery', 'NoDead'],
                                 'c14', p2, 'random %d clients' % nclients, nproc=8)
    chk.sample({'recorded': [a for a, s in batch[0]][:6]})
    # byte level: what the bus delivered is judged by the reference parser of Message.tla - forwarded messages are
    # well-formed and equal to what was sent except for the SENDER field; the bus's own messages are well-formed
    fw = sorted(bd.FORWARDED.items(), key=repr)
    og = sorted(bd.ORIGINATED.items(), key=repr)[:150]
    cc = 'CONSTANTS\n MTypes = {1}\n'
    obs = ['c', 'raw', 'rec', 'ser']
    for label, pred, items, mk in (
            ('forwarded bytes', 'TraceForward', fw,
             lambda v: {'c': {'orig': tuple(v[0]), 'sender': tuple(v[2].encode())}, 'raw': tuple(v[1]), 'rec': {}, 'ser': {}}),
            ('bus-originated bytes', 'TraceWellFormed', og, lambda v: {'c': {}, 'raw': tuple(v), 'rec': {}, 'ser': {}})):
        traces = [[({'n': 'Init'}, mk(v))] for k, v in items]
        rej, stt = core.validate_traces('MC_Message', obs, traces, {}, cfg_consts=cc, initpred=pred, nproc=8, timeout=600)
        chk.states += stt['states']
        chk.transitions += stt['transitions']
        chk.traces += len(traces) - len(rej)
        chk.notes[label] = len(traces)
        for ti, _, _ in rej[:3]:
            k, v = items[ti]
            chk.violation('%s rejected by Message.tla/%s: %r' % (label, pred, k), dict(
                kind='code->spec bytes', module='c14', key=repr(k),
                sent=list(v[0]) if pred == 'TraceForward' else None,
                delivered=list(v[1]) if pred == 'TraceForward' else list(v)))
    tr = [list(x) for x in rerecord(p2, [('Hello', (1,)), ('Hello', (2,)), ('Send', (1, ('u', 2), 'call', True))])]
    done = False
    for j, (a, st) in enumerate(tr):
        for k, o in enumerate(st['out']):
            for i, m in enumerate(o):
                if m.get('t') == 'fwd':
                    out = [list(x) for x in st['out']]
                    out[k][i] = dict(m, **{'from': m['from'] + 1})
                    tr[j] = (a, dict(st, out=tuple(tuple(x) for x in out)))
                    done = True
                    break
            if done:
                break
        if done:
            break
    rej, _ = core.validate_traces(BASE, OBS, [[tuple(x) for x in tr]], ACTIONS, cfg_consts=trace_cfg(p2), nproc=1)
    chk.canary = {'what': 'sender of one forwarded message changed in a recorded history', 'rejected': bool(rej) and done}
    chk.assumptions = ['the delivery interleaving of the bus is the order in which it reads the connections: one action per message read',
                       'messages carrying file descriptors are not routed through the built-in bus (outside the quantifier)',
                       'a broadcast is compared copy for copy (one per matching rule held), which is stronger than the set of '
                       'connections the property speaks of', 'forwarded content is compared field by field with what was sent, and a sample of the delivered bytes (every '
                       'kind x byte order x flags x forged or not) is parsed by the reference parser of Message.tla']
    return chk.finish(
        rule='TLC explores all histories of connects (incl. a bad first call), disconnects, name changes, unicast messages of all '
             'four types to names and unique names (forged senders, both byte orders, flags), calls to the bus itself, AddMatch / '
             'RemoveMatch and broadcasts for 2 clients with one reconnection; every edge and random walks are replayed on a real '
             'Bus comparing everything each connection receives; random histories with up to 4 clients, 2 names, 4 rules and 3 '
             'signals are validated by TLC',
        exhaustive=True)
