"""Second driver for the name-table part of spec/Bus.tla: real DBusClientConnections attached to the real
Bus over in-memory links (fakes.BusNet), driven through the *client API* (requestBusName, releaseBusName,
getNameOwner, listQueuedBusNameOwners, disconnect) instead of scripted message bytes.  What each client
observes - the results of its Deferreds and the NameAcquired / NameLost signals delivered to callbacks it
registered with addMatch - is projected to the `out` records of the specification, in arrival order."""
from twisted.python import failure

from . import fakes
from . import busdriver as bd

from txdbus import error

ACTIONS = bd.ACTIONS
BUS = bd.BUS


class ClientBusDriver:
    def __init__(self, clients, errback_mode=0):
        self.slots = list(clients)
        self.net = fakes.BusNet()
        self.idx = {c: None for c in self.slots}       # slot -> index in net.clients
        self.events = {c: [] for c in self.slots}
        self.mode = errback_mode
        self.n = 0

    def conn(self, c):
        return self.net.clients[self.idx[c]][0]

    def _signal_cb(self, c, member):
        def cb(m):
            ok = m.destination == self.conn(c).busName and m.sender in (None, BUS) and m.path == bd.BPATH
            n = m.body[0] if m.body else ''
            k = int(n[len('org.ex.N'):]) if isinstance(n, str) and n.startswith('org.ex.N') else -1
            self.events[c].append({'t': 'signal', 'member': member if ok else member + '(misaddressed)', 'name': k})
        return cb

    def apply(self, name, args):
        for c in self.slots:
            self.events[c] = []
        self.n += 1
        getattr(self, 'do_' + name)(*args)
        self.net.run()

    def do_Hello(self, c):
        i = self.net.add_client()
        self.idx[c] = i
        self.net.run()
        conn = self.conn(c)
        if not self.net.ready(i):
            self.events[c].append({'t': 'unexpected', 'what': 'client did not become ready'})
            return
        for member in ('NameAcquired', 'NameLost'):
            conn.addMatch(self._signal_cb(c, member), mtype='signal', interface=BUS, member=member)
        self.net.run()
        self.events[c] = [{'t': 'return', 'tag': 'Hello', 'v': bd.uid_of(conn.busName)}]

    def do_Disconnect(self, c):
        conn, ct, bp, bt, fac = self.net.clients[self.idx[c]]
        conn.disconnect()
        reason = fakes.conn_done()
        conn.connectionLost(reason)
        bp.connectionLost(reason)
        del ct.queue[:]
        del bt.queue[:]
        self.idx[c] = None

    def _result(self, c, tag, conv=lambda v: v):
        def ok(v):
            self.events[c].append({'t': 'return', 'tag': tag, 'v': conv(v)})

        def err(f):
            if isinstance(f.value, error.RemoteError):
                n = f.value.errName
                short = n.rsplit('.', 1)[-1] if n.startswith('org.freedesktop.DBus.Error.') else n
                self.events[c].append({'t': 'error', 'name': short})
            else:
                self.events[c].append({'t': 'unexpected', 'what': repr(f.value)[:80]})
        return ok, err

    def do_RequestName(self, c, n, al, rp, nq):
        strict = (self.n + self.mode) % 2 == 0        # alternate errbackUnlessAcquired
        d = self.conn(c).requestBusName(bd.name_str(n), allowReplacement=al, replaceExisting=rp, doNotQueue=nq,
                                        errbackUnlessAcquired=strict)
        ok, err = self._result(c, 'RequestName')

        def failed(f):
            if isinstance(f.value, error.FailedToAcquireName):
                # only with errbackUnlessAcquired, and only for "queued" / "in use"
                code = f.value.returnCode
                if strict and code in (2, 3):
                    return ok(code)
                return ok(-code)
            return err(f)
        d.addCallbacks(lambda v: ok(v if not (strict and v in (2, 3)) else -v), failed)

    def do_ToBus(self, c, what):
        assert what == 'OwnBusName', what
        # the bus's own name: no client can have it
        self.conn(c).requestBusName('org.freedesktop.DBus', doNotQueue=True,
                                    errbackUnlessAcquired=False).addCallbacks(*self._result(c, 'RequestName'))

    def do_ReleaseName(self, c, n):
        self.conn(c).releaseBusName(bd.name_str(n)).addCallbacks(*self._result(c, 'ReleaseName'))

    def do_GetNameOwner(self, c, n):
        self.conn(c).getNameOwner(bd.name_str(n)).addCallbacks(*self._result(c, 'GetNameOwner', bd.uid_of))

    def do_GetUniqueOwner(self, c, k):
        self.conn(c).getNameOwner(':1.%d' % k).addCallbacks(*self._result(c, 'GetNameOwner', bd.uid_of))

    def do_ListQueued(self, c, n):
        self.conn(c).listQueuedBusNameOwners(bd.name_str(n)).addCallbacks(
            *self._result(c, 'ListQueuedOwners', lambda v: tuple(bd.uid_of(x) for x in v)))

    def project(self):
        return {'out': tuple(tuple(self.events[c]) for c in self.slots)}


def make_driver(params, acts):
    return ClientBusDriver(list(range(1, params['clients'] + 1)), params.get('mode', 0))
