"""C03 - every constructible message serialises well-formed and parses back intact.
Spec: spec/Message.tla on top of spec/Wire.tla; cases from spec/MC_Message.tla."""
import random
import struct
from concurrent.futures import ThreadPoolExecutor

from . import fakes  # noqa: F401  (installs the quiet log observer, repo path)
from . import core, tlc, refwire, wirecodec as wc
from .tlaval import norm

from txdbus import message, error

OBS = ['c', 'raw', 'rec', 'ser']
ATTR = {1: ('path', 'o'), 2: ('interface', 's'), 3: ('member', 's'), 4: ('error_name', 's'),
        5: ('reply_serial', 'u'), 6: ('destination', 's'), 7: ('sender', 's'), 9: ('unix_fds', 'u')}
NAME2CODE = {v[0]: k for k, v in ATTR.items()}


def parse_types(sig):
    """signature string -> tuple of type trees (Wire.tla representation), independent splitter"""
    def one(t):
        c = t[0]
        if c == 'a':
            if t[1] == '{':
                inner = refwire.split(t[2:-1])
                return ('a', ('{', one(inner[0]), one(inner[1])))
            return ('a', one(t[1:]))
        if c == '(':
            return ('(', tuple(one(x) for x in refwire.split(t[1:-1])))
        return (c,)
    return tuple(one(t) for t in refwire.split(sig or ''))


def project_parsed(pm, expect_body=None):
    """what txdbus.message.parseMessage recovered, in the Project form of Message.tla"""
    fields = set()
    for code, (attr, t) in ATTR.items():
        v = getattr(pm, attr, None)
        if v is None:
            continue
        if t == 'u':
            fields.add((code, (t,), tuple(int(v).to_bytes(4, 'little'))))
        else:
            fields.add((code, (t,), tuple(str(v).encode('utf-8'))))
    try:
        bodyT = parse_types(pm.signature)
    except Exception:
        bodyT = ('unparsable signature', repr(pm.signature))
    body = pm.body if pm.signature else []
    try:
        if len(body or []) != len(bodyT):
            bv = ('mismatch', 'body has %d values for %d types' % (len(body or []), len(bodyT)))
        else:
            exp = expect_body if expect_body is not None and len(expect_body) == len(bodyT) else [None] * len(bodyT)
            bv = tuple(wc.from_py_v(t, x, e) for t, x, e in zip(bodyT, body, exp))
    except wc.Mismatch as ex:
        bv = ('mismatch', str(ex)[:80])
    return {'type': pm._messageType, 'nr': not pm.expectReply, 'na': not pm.autoStart, 'serial': pm.serial,
            'fields': frozenset(fields), 'bodyT': bodyT, 'body': bv}


def known(fields):
    return frozenset(f for f in fields if 1 <= f[0] <= 9)


def constructible(m):
    """can the abstract message be built through the public constructors?"""
    codes = [f[0] for f in m['fields']]
    if any(c > 8 for c in codes) or len(set(codes)) != len(codes):
        return False      # (descriptor counts are set by the library, from the descriptors it finds in the body)
    t = m['type']
    if t != 1 and (m['nr'] or m['na']):
        return False
    if 7 in codes and t != 3:
        return False      # only ErrorMessage takes a sender
    return True


def construct(m, style=0, big_endian=False):
    """build the message with the real constructors; returns the message object"""
    f = {ATTR[x[0]][0]: (int.from_bytes(bytes(x[2]), 'little') if x[1] == ('u',) else bytes(x[2]).decode())
         for x in m['fields']}
    sig = ''.join(wc.sig(t) for t in m['bodyT']) or None
    body = [wc.to_py(t, v, False, style) for t, v in zip(m['bodyT'], m['body'])] if sig else None
    message.DBusMessage._nextSerial = m['serial']
    t = m['type']
    cls = {1: message.MethodCallMessage, 2: message.MethodReturnMessage, 3: message.ErrorMessage, 4: message.SignalMessage}[t]
    if big_endian:
        # the documented way to send in the other byte order: the `endian` attribute
        cls = type('BigEndian' + cls.__name__, (cls,), {'endian': ord('B')})
    if t == 1:
        return cls(f['path'], f['member'], interface=f.get('interface'),
                                         destination=f.get('destination'), signature=sig, body=body,
                                         expectReply=not m['nr'], autoStart=not m['na'])
    if t == 2:
        return cls(f['reply_serial'], body=body, destination=f.get('destination'),
                                           signature=sig)
    if t == 3:
        return cls(f['error_name'], f['reply_serial'], destination=f.get('destination'),
                                    signature=sig, body=body, sender=f.get('sender'))
    return cls(f['path'], f['member'], f['interface'], destination=f.get('destination'),
               signature=sig, body=body)


def fd_messages(rng, n):
    """method calls carrying file descriptors: abstract message (UNIX_FDS field = number of
    descriptors, 'h' values = indices into the out-of-band list) and the constructed object"""
    for i in range(n):
        k = rng.randint(1, 3)
        shape = rng.choice(['flat', 'struct', 'array'])
        fds = [200 + 7 * i + j for j in range(k)]
        idx = [tuple(j.to_bytes(4, 'little')) for j in range(k)]
        if shape == 'flat':
            bodyT, body, pybody = tuple(('h',) for _ in range(k)), tuple(idx), list(fds)
        elif shape == 'struct':
            bodyT, body, pybody = (('(', tuple(('h',) for _ in range(k))),), (tuple(idx),), [tuple(fds)]
        else:
            bodyT, body, pybody = (('a', ('h',)),), (tuple(idx),), [list(fds)]
        P = lambda x: tuple(x.encode())
        fields = [(1, ('o',), P('/fd/%d' % i)), (3, ('s',), P('Take'))]
        if rng.random() < 0.5:
            fields.append((6, ('s',), P(':1.%d' % (i + 2))))
        fields.append((9, ('u',), tuple(k.to_bytes(4, 'little'))))
        serial = 700 + i
        m = {'type': 1, 'nr': False, 'na': False, 'serial': serial, 'fields': tuple(fields), 'bodyT': bodyT, 'body': body}
        message.DBusMessage._nextSerial = serial
        f = {ATTR[x[0]][0]: bytes(x[2]).decode() for x in fields if x[0] != 9}
        oob = []
        mo = message.MethodCallMessage(f['path'], f['member'], destination=f.get('destination'),
                                       signature=''.join(wc.sig(t) for t in bodyT), body=pybody, oobFDs=oob)
        yield m, mo, oob == fds


def model_cases(chk):
    def one(t):
        cfg = ('SPECIFICATION Spec\nCONSTANTS\n  MTypes = {%d}\nINVARIANT RefWellFormed\nINVARIANT RefParseBack\n'
               'CHECK_DEADLOCK FALSE\n' % t)
        name = 'MC_Message_%d.cfg' % t
        return tlc.dump_states('MC_Message', name, workers=4, timeout=600, extra={name: cfg})
    with ThreadPoolExecutor(4) as ex:
        outs = list(ex.map(one, [1, 2, 3, 4]))
    states = []
    for res, st in outs:
        chk.tlc_stats(res, 'MC_Message')
        if not res.ok:
            chk.violation('model: MC_Message %s %s' % res.violation, dict(kind='TLC', trace=repr(res.trace)))
        states.extend(st)
    return states


def rand_msg(rng):
    t = rng.randint(1, 4)
    P = lambda s: tuple(s.encode())
    fields = []
    if t in (1, 4):
        fields.append((1, ('o',), P(rng.choice(wc.PATHS))))
    if t == 4 or (t == 1 and rng.random() < 0.6):
        fields.append((2, ('s',), P(rng.choice(['org.ex.If', 'a.b', 'x_1.Y.z9']))))
    if t in (1, 4):
        fields.append((3, ('s',), P(rng.choice(['M', 'Method_2', 'x' * 60]))))
    if t == 3:
        fields.append((4, ('s',), P(rng.choice(['org.ex.Err', 'a.E']))))
    if t in (2, 3):
        fields.append((5, ('u',), tuple(rng.choice([1, 77, 2 ** 32 - 1, 2 ** 31]).to_bytes(4, 'little'))))
    if rng.random() < 0.5:
        fields.append((6, ('s',), P(rng.choice([':1.5', 'org.ex.Dest', 'a-b.c']))))
    sender = rng.random() < 0.4
    if sender:
        fields.append((7, ('s',), P(':1.%d' % rng.randint(1, 99))))
    if rng.random() < 0.3:
        # a peer's message declaring descriptors (none of which the body refers to): one more header field, anywhere
        fields.append((9, ('u',), tuple(rng.choice([1, 2, 3]).to_bytes(4, 'little'))))
    nb = rng.choice([0, 1, 1, 2, 3])
    bodyT = tuple(wc.rand_type(rng, 2) for _ in range(nb))
    body = tuple(wc.rand_value(rng, x) for x in bodyT)
    return {'type': t, 'nr': rng.random() < 0.3, 'na': rng.random() < 0.3,
            'serial': rng.choice([1, 2, 255, 256, 65535, 2 ** 24, 2 ** 31 - 2, rng.randrange(1, 2 ** 31 - 2)]),
            'fields': tuple(fields), 'bodyT': bodyT, 'body': body}


def foreign_bytes(rng, m, le, sigpos, unknown):
    """bytes of m written by the independent Python encoder (field order as in m['fields'])"""
    fl = []
    for code, T, v in m['fields']:
        name = ATTR[code][0]
        fl.append((name, int.from_bytes(bytes(v), 'little') if T == ('u',) else bytes(v).decode()))
    sig = ''.join(wc.sig(t) for t in m['bodyT'])
    body = [ref_value(t, v) for t, v in zip(m['bodyT'], m['body'])]
    if sig:
        fl.insert(sigpos, ('signature', sig))
    flags = (1 if m['nr'] else 0) | (2 if m['na'] else 0)
    return refwire.msg(m['type'], m['serial'], fl, sig or None, body, flags=flags, le=le)


def ref_value(T, v):
    """TLA value -> value for refwire.enc"""
    import struct
    c = T[0]
    if c in wc.FIXED:
        return int.from_bytes(bytes(v), 'little', signed=wc.FIXED[c][1])
    if c == 'b':
        return bool(v[0])
    if c == 'd':
        return struct.unpack('<d', bytes(v))[0]
    if c in 'sog':
        return bytes(v).decode('utf-8')
    if c == 'v':
        return refwire.Variant(wc.sig(v[0]), ref_value(v[0], v[1]))
    if c == 'a':
        if T[1][0] == '{':
            return [(ref_value(T[1][1], k), ref_value(T[1][2], w)) for k, w in v]
        return [ref_value(T[1], x) for x in v]
    if c == '(':
        return tuple(ref_value(t, x) for t, x in zip(T[1], v))
    raise ValueError(T)


def run(tier, seed):
    chk = core.Check('C03', tier, seed)
    rng = random.Random(seed)
    thorough = tier == 'thorough'
    saved = message.DBusMessage._nextSerial
    states = model_cases(chk)
    chk.notes['model_cases'] = len(states)
    own = []
    resent = []
    nbad = 0
    # ---- spec -> code
    for i, st in enumerate(states):
        c = st['c']
        m = c['m']
        raw = bytes(st['raw'])
        # (a) parse the bytes a conforming peer would send
        try:
            pm = message.parseMessage(raw, [])
            got = project_parsed(pm, m['body'])
        except Exception as ex:
            got = {'exception': '%s: %s' % (type(ex).__name__, ex)}
        want = dict(st['rec'])
        if norm(got) != norm(want):
            nbad += 1
            if nbad <= 5:
                dif = [k for k in want if norm(got.get(k, '<absent>')) != norm(want[k])] if 'exception' not in got else ['exception']
                chk.violation('parse of reference bytes (type %d, le=%s) differs in %s' % (m['type'], c['le'], ','.join(dif)),
                              dict(kind='spec->code parse', module='c03', m=repr(m), le=c['le'], raw=list(raw),
                                   recovered=repr(got), expected=repr(want)))
        chk.traces += 1
        # (a') serialise the parsed message again with the sender stamped, as the bus does before forwarding
        if i % 3 == 0 and 'exception' not in got:
            try:
                pm.sender = ':1.77'
                pm._marshal(False)
                resent.append(({'c': {'orig': tuple(raw), 'sender': tuple(b':1.77')}, 'raw': tuple(pm.rawMessage),
                                'rec': {}, 'ser': {}}, m))
            except Exception as ex:
                chk.violation('serialising a parsed message (type %d, le=%s) again raised %s' % (m['type'], c['le'], type(ex).__name__),
                              dict(kind='exception', module='c03', m=repr(m), raw=list(raw), trace=core.traceback_str()))
        # (b) construct it through the public constructors; TLC judges the bytes (TraceOwn)
        if c['le'] and c['sigpos'] == 0 and constructible(m):
            try:
                mo = construct(m, i)
                own.append(({'c': {'m': m, 'le': True, 'sigpos': 0}, 'raw': tuple(mo.rawMessage), 'rec': st['rec'],
                             'ser': {'start': mo.serial, 'after': message.DBusMessage._nextSerial}}, m))
            except Exception as ex:
                chk.violation('constructor raised %s for a constructible message of type %d' % (type(ex).__name__, m['type']),
                              dict(kind='exception', module='c03', m=repr(m), trace=core.traceback_str()))
        if i % 500 == 3:
            chk.sample({'case': {'type': m['type'], 'le': c['le'], 'fields': repr(m['fields'])[:200], 'raw': list(raw)[:40]}})
    # ---- code -> spec: random messages in both directions
    nrand = 10000 if thorough else 300
    parse_tr = []
    for i in range(nrand):
        m = rand_msg(rng)
        if constructible(m):
            try:
                mo = construct(m, i, big_endian=(i % 3 == 0))
                own.append(({'c': {'m': m, 'le': i % 3 != 0, 'sigpos': 0}, 'raw': tuple(mo.rawMessage), 'rec': {},
                             'ser': {'start': mo.serial, 'after': message.DBusMessage._nextSerial}}, m))
            except Exception as ex:
                chk.violation('constructor raised %s for a random constructible message' % type(ex).__name__,
                              dict(kind='exception', module='c03', m=repr(m), trace=core.traceback_str()))
        le = rng.random() < 0.5
        fl = list(m['fields'])
        rng.shuffle(fl)
        m2 = dict(m, fields=tuple(fl))
        sp = rng.randint(0, len(fl))
        raw = foreign_bytes(rng, m2, le, sp, False)
        try:
            got = project_parsed(message.parseMessage(raw, []), m2['body'])
        except Exception as ex:
            got = {'type': 0, 'nr': False, 'na': False, 'serial': 0, 'fields': frozenset(), 'bodyT': (),
                   'body': ('exception', '%s: %s' % (type(ex).__name__, str(ex)[:60]))}
        parse_tr.append(({'c': {'m': m2, 'le': le, 'sigpos': sp}, 'raw': tuple(raw), 'rec': got,
                          'ser': {'start': 0, 'after': 0}}, m2))
    # method calls carrying file descriptors, several in a row and mixed with ordinary ones: the UNIX_FDS
    # field appears exactly once, with the number of descriptors
    try:
        for j, (m, mo, ok) in enumerate(fd_messages(rng, 60 if thorough else 12)):
            if not ok:
                chk.violation('descriptors of a constructed message were not collected in order', dict(kind='case', m=repr(m)))
            own.append(({'c': {'m': m, 'le': True, 'sigpos': 0}, 'raw': tuple(mo.rawMessage), 'rec': {},
                         'ser': {'start': mo.serial, 'after': message.DBusMessage._nextSerial}}, m))
            if j % 3 == 2:
                m0 = rand_msg(rng)
                m0 = dict(m0, type=1, nr=False, na=False, fields=((1, ('o',), (47, 112)), (3, ('s',), (77,))))
                mo = construct(m0, j)
                own.append(({'c': {'m': m0, 'le': True, 'sigpos': 0}, 'raw': tuple(mo.rawMessage), 'rec': {},
                             'ser': {'start': mo.serial, 'after': message.DBusMessage._nextSerial}}, m0))
        chk.notes['fd_messages'] = 60 if thorough else 12
    except Exception as ex:
        chk.violation('constructor raised %s for a message carrying descriptors' % type(ex).__name__,
                      dict(kind='exception', module='c03', trace=core.traceback_str()))
    # the same foreign bytes with flag bits set that mean nothing to this implementation (0x4 is
    # ALLOW_INTERACTIVE_AUTHORIZATION; the others are undefined): ignored, everything else as before
    flagged = []
    for j, (st, m2) in enumerate(parse_tr[::3]):
        raw = bytearray(st['raw'])
        raw[2] |= (0x4, 0x4, 0x8, 0xf4)[j % 4]
        try:
            got = project_parsed(message.parseMessage(bytes(raw), []), m2['body'])
        except Exception as ex:
            got = {'type': 0, 'nr': False, 'na': False, 'serial': 0, 'fields': frozenset(), 'bodyT': (),
                   'body': ('exception', '%s: %s' % (type(ex).__name__, str(ex)[:60]))}
        flagged.append((dict(st, raw=tuple(raw), rec=got), m2))
    # well-framed bytes whose known header fields hold values of another type than prescribed: not messages
    invalid = []
    V = refwire.Variant
    for mtype, good in ((1, {1: V('o', '/p'), 3: V('s', 'M'), 2: V('s', 'a.b'), 6: V('s', ':1.5')}),
                        (4, {1: V('o', '/p'), 3: V('s', 'M'), 2: V('s', 'a.b')}),
                        (2, {5: V('u', 7), 6: V('s', ':1.5')}), (3, {4: V('s', 'a.E'), 5: V('u', 7)})):
        for code in sorted(good):
            for odd in (V('as', ['x']), V('u', 3) if good[code].sig != 'u' else V('s', 'x'), V('b', True), V('(s)', ['x']), V('ay', [47])):
                fl = dict(good)
                fl[code] = odd
                for le in (True, False):
                    hdr = refwire.enc('yyyyuua(yv)', [ord('l') if le else ord('B'), mtype, 0, 1, 0, 9, sorted(fl.items())], 0, le)
                    raw = hdr + b'\0' * ((8 - len(hdr) % 8) % 8)
                    try:
                        got = project_parsed(message.parseMessage(raw, []), ())
                        got = dict(got, fields=frozenset(), body=('accepted', repr(sorted(fl))[:60]))
                    except Exception as ex:
                        got = {'type': 0, 'nr': False, 'na': False, 'serial': 0, 'fields': frozenset(), 'bodyT': (),
                               'body': ('exception', '%s: %s' % (type(ex).__name__, str(ex)[:60]))}
                    m0 = {'type': mtype, 'nr': False, 'na': False, 'serial': 9, 'fields': (), 'bodyT': (), 'body': ()}
                    invalid.append(({'c': {'m': m0, 'le': le, 'sigpos': 0}, 'raw': tuple(raw), 'rec': got,
                                     'ser': {'start': 0, 'after': 0}}, m0))
    cc = 'CONSTANTS\n MTypes = {1}\n'
    for label, batch, pred in (('constructed', own, 'TraceOwn'), ('parsed', parse_tr, 'TraceParse'),
                               ('parsed (undefined flag bits set)', flagged, 'TraceParseAny'),
                               ('not a message (header field of the wrong type)', invalid, 'TraceParseInvalid'),
                               ('parsed and serialised again', resent, 'TraceResent')):
        traces = [[({'n': 'Init'}, st)] for st, _ in batch]
        rej, stt = core.validate_traces('MC_Message', OBS, traces, {}, cfg_consts=cc, initpred=pred, nproc=12,
                                        timeout=900)
        chk.states += stt['states']
        chk.transitions += stt['transitions']
        chk.traces += len(traces) - len(rej)
        chk.notes[label] = len(traces)
        for ti, _, _ in rej[:5]:
            st, m = batch[ti]
            chk.violation('%s message (type %d) rejected by Message.tla/%s' % (label, m['type'], pred), dict(
                kind='code->spec', module='c03', m=repr(m), raw=list(st['raw']), rec=repr(st['rec']), ser=st['ser']))
    # ---- size limit: accepted iff the serialised length is within the limit
    lim_tr = []
    sizes = [0, 1, 7, 8, 100]
    for n in sizes:
        message.DBusMessage._nextSerial = 5
        full = message.SignalMessage('/p', 'S', 'a.b', signature='s', body=['x' * n]).rawMessage
        for limit in (len(full) - 1, len(full), len(full) + 1):
            cls = type('Sig', (message.SignalMessage,), {'_maxMsgLen': limit})
            message.DBusMessage._nextSerial = 5
            try:
                cls('/p', 'S', 'a.b', signature='s', body=['x' * n])
                acc = True
            except error.MarshallingError:
                acc = False
            lim_tr.append({'limit': limit, 'rawlen': len(full), 'accepted': acc})
    if thorough:
        for n in (2 ** 27 - 200, 2 ** 27):
            message.DBusMessage._nextSerial = 5
            try:
                mm = message.SignalMessage('/p', 'S', 'a.b', signature='s', body=['x' * n])
                acc, ln = True, len(mm.rawMessage)
                del mm
            except error.MarshallingError:
                acc, ln = False, n + 80
            lim_tr.append({'limit': 2 ** 27, 'rawlen': ln, 'accepted': acc})
    traces = [[({'n': 'Init'}, {'c': {}, 'raw': (), 'rec': {}, 'ser': x})] for x in lim_tr]
    rej, stt = core.validate_traces('MC_Message', OBS, traces, {}, cfg_consts=cc, initpred='TraceLimit', nproc=1)
    chk.states += stt['states']
    chk.transitions += stt['transitions']
    for ti, _, _ in rej[:3]:
        chk.violation('size limit: %r' % (lim_tr[ti],), dict(kind='code->spec', module='c03', case=lim_tr[ti]))
    # the far end of the serial counter (2^32 is beyond TLC's integers, so this boundary is judged here): whatever is
    # constructed there carries a fresh serial that is not zero - or is not constructed at all
    saved = message.DBusMessage._nextSerial
    try:
        message.DBusMessage._nextSerial = 2 ** 32 - 2
        seen_serials = []
        for j in range(5):
            try:
                mo = message.SignalMessage('/p', 'M', 'org.ex.I')
                ser_wire = struct.unpack_from('<I', mo.rawMessage, 8)[0]
            except Exception:
                continue          # refusing to build a message there produces nothing ill-formed
            if ser_wire == 0 or mo.serial != ser_wire or ser_wire in seen_serials:
                chk.violation('serial counter at 2^32: message %d constructed with serial %r (earlier: %r)' % (j, ser_wire, seen_serials),
                              dict(kind='case', module='c03', serial=ser_wire, earlier=seen_serials))
                break
            seen_serials.append(ser_wire)
        chk.notes['serial_boundary'] = seen_serials
    finally:
        message.DBusMessage._nextSerial = saved
    # names: a string that is legal in one role (and was just used in it) is still refused in the roles whose
    # grammar excludes it - verdicts judged by Validators.tla, as in C18 but after the string has a history
    from . import c18
    ntr, ntexts = [], []
    cases = [(tuple(c), None) for c in (':D.D', 'L-L.L', 'L.D', 'L.L', '/L', '/L/L', 'L', 'U.U-', ':L.L', 'L.L.', ':D', 'L/L.L')]
    # a line feed (class O) at the very end, where a careless '$' lets it pass
    cases += [((), ''), ((), ''), ((), ''), ((), ''),          # the empty string, in every constructor variant
              (tuple('LLLLO'), 'Ping\n'), (tuple('L.LO'), 'a.b\n'), (tuple('/LO'), '/a\n'), (tuple(':D.DO'), ':1.2\n'),
              (tuple('LLLLO'), 'Ping\0')]
    for cls, given in cases:
        text = given if given is not None else c18.instantiate(cls, len(ntr))
        for k in range(4):
            c18.via_ctors(text, k)                 # uses the string in every role, whatever comes of it
        c18.direct(text)
        got = c18.via_ctors(text, len(ntr) % 4)
        ntr.append([({'n': 'Init'}, {'s': cls, 'v': got})])
        ntexts.append(text)
    ncc = 'CONSTANTS\n MaxLen = 1\n Classes = {"L", "D", "U", ".", "-", ":", "/", "X", "O"}\n'
    rej, stt = core.validate_traces('Validators', c18.OBS, ntr, {}, cfg_consts=ncc, initpred='TraceInit', nproc=2)
    chk.states += stt['states']
    chk.transitions += stt['transitions']
    chk.traces += len(ntr) - len(rej)
    for ti, _, _ in rej[:3]:
        chk.violation('a message naming %r could be constructed (or was refused) against the grammar after the string had been '
                      'used in other roles: %r' % (ntexts[ti], ntr[ti][0][1]['v']),
                      dict(kind='code->spec names', module='c03', text=ntexts[ti], verdicts=ntr[ti][0][1]['v']))
    # reserved path
    try:
        message.MethodCallMessage('/org/freedesktop/DBus/Local', 'M')
        chk.violation('reserved path /org/freedesktop/DBus/Local accepted by MethodCallMessage', dict(kind='case'))
    except error.MarshallingError:
        pass
    # ---- canary
    st, m = own[0]
    bad = dict(st)
    r = list(bad['raw'])
    r[2] ^= 1          # flip NO_REPLY_EXPECTED in the bytes
    bad['raw'] = tuple(r)
    rej, _ = core.validate_traces('MC_Message', OBS, [[({'n': 'Init'}, bad)]], {}, cfg_consts=cc, initpred='TraceOwn', nproc=1)
    chk.canary = {'what': 'flag bit flipped in recorded bytes of a constructed message', 'rejected': bool(rej)}
    message.DBusMessage._nextSerial = max(saved, 10 ** 6)
    chk.assumptions = ['field order of constructed messages is not prescribed: constructed bytes are judged by the '
                       'reference parser (WellFormed / Recovered) rather than byte equality',
                       'name validity is decided by C18; 128 MiB messages only in the thorough tier',
                       'constructed messages carrying UNIX_FD are judged here (UNIX_FDS field once, indices in order); '
                       'their transport and parsing with real descriptors is C20']
    return chk.finish(
        rule='every state of MC_Message (4 types x field subsets x orders x unknown field x flags x bodies x byte '
             'order x signature position) is parsed by the implementation and, where constructible, built by it; '
             'random messages with bodies from the codec space go both ways; all verdicts are evaluated by TLC on '
             'Message.tla',
        exhaustive=True)
