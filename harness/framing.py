"""Shared by C04 and C20: instances of spec/Framing.tla built from concrete messages, and the driver
that feeds a real BasicDBusProtocol (stub authenticator) or a real DBusClientConnection."""
import itertools
import struct

from zope.interface import implementer

from . import core, tlc, fakes, refwire
from .tlaval import to_tla

import txdbus.protocol
import txdbus.client
from txdbus import message

ACTIONS = {'Read': ('k',), 'FdArrive': ()}
OBS = ['pos', 'linesFed', 'authed', 'batch', 'rbatch', 'nfd']      # verdict variables bound in recorded traces
OBS_FD = OBS + ['fdq']
INVS_C04 = ['Boundary', 'InOrder', 'PartitionFree', 'Quiescent', 'PendingLen', 'AuthOnce', 'LineMode']
INVS_C20 = ['Attribution', 'QueueTail']
FD0 = -1         # descriptor number d (1, 2, ...) travels as the integer FD0 + d: the first one received is number 0, as in a
                 # process that closed its standard input


@implementer(txdbus.protocol.IDBusAuthenticator)
class StubAuth:
    """Authenticator that succeeds at its nl-th line whatever the lines say."""
    nl = 1

    def __init__(self, *a):
        self.n = 0
        self.lines = []

    def beginAuthentication(self, protocol):
        self.protocol = protocol

    def handleAuthMessage(self, line):
        self.n += 1
        self.lines.append(line)

    def authenticationSucceeded(self):
        return self.n >= self.nl

    def getGUID(self):
        return b'guid'


class _Rec:
    """mixin recording what the protocol delivers"""

    def _init_rec(self):
        self.raws = []
        self.parsed = []
        self.nauth = 0

    def connectionAuthenticated(self):
        self.nauth += 1
        sup = super()
        if hasattr(sup, 'connectionAuthenticated'):
            sup.connectionAuthenticated()

    def rawDBusMessageReceived(self, raw):
        self.raws.append(bytes(raw))
        super().rawDBusMessageReceived(raw)

    def methodCallReceived(self, m):
        self.parsed.append(m)

    def methodReturnReceived(self, m):
        self.parsed.append(m)

    def errorReceived(self, m):
        self.parsed.append(m)

    def signalReceived(self, m):
        self.parsed.append(m)


class StubProto(_Rec, txdbus.protocol.BasicDBusProtocol):
    pass


class RealClient(_Rec, txdbus.client.DBusClientConnection):
    pass


class _Bus:
    uuid = b'00'


class _Fac:
    bus = _Bus()

    def _ok(self, p):
        pass

    def _failed(self, e):
        pass


# ----------------------------------------------------------------------------------------------
# instances


_SER = [5000]


def mk_msg(kind, i, endian='l', fds=0, hperm=None, crlf=False, serial=None, pad=0, wrap=None):
    """A concrete message number i, built with the independent reference encoder (either byte
    order).  Returns (raw bytes, nfds, hidx)."""
    text = ('x%d' % i) + ('\r\nBEGIN\r\nOK 12\r\n' if crlf else '') + 'p' * pad
    le = endian == 'l'
    if serial is None:
        _SER[0] += 1
        serial = _SER[0]
    hidx = list(hperm) if (fds and hperm) else list(range(fds))
    mtype, fields = {
        'call': (1, [('path', '/p%d' % i), ('interface', 'org.ex.I'), ('member', 'M%d' % i)]),
        'ret': (2, [('reply_serial', 0x7f000000 + i)]),
        'err': (3, [('error_name', 'org.ex.E%d' % i), ('reply_serial', 0x7f000000 + i)]),
        'sig': (4, [('path', '/p%d' % i), ('interface', 'org.ex.I'), ('member', 'S%d' % i)]),
        'empty': (4, [('path', '/p%d' % i), ('interface', 'org.ex.I'), ('member', 'S%d' % i)]),
    }[kind]
    if fds and wrap == 'v':
        # what only a foreign peer sends: the descriptors travel inside variants, no 'h' in the body signature
        raw = refwire.msg(mtype, serial, fields + [('unix_fds', fds)], 'v' * fds + 's',
                          [refwire.Variant('h', j) for j in hidx] + [text], le=le)
    elif fds and wrap == 'none':
        # descriptors declared and attached but referenced by no argument: still consumed with this message
        hidx = []
        raw = refwire.msg(mtype, serial, fields + [('unix_fds', fds)], 's', [text], le=le)
    elif fds:
        raw = refwire.msg(mtype, serial, fields + [('unix_fds', fds)], 'h' * fds + 's', hidx + [text], le=le)
    elif kind == 'empty':
        raw = refwire.msg(mtype, serial, fields, le=le)
    else:
        raw = refwire.msg(mtype, serial, fields, 's', [text], le=le)
    return raw, fds, hidx


class Instance:
    def __init__(self, role, lines, msgs, tag):
        """role: 'client' | 'server' | 'none' (already authenticated); lines: list of byte strings
        (without CRLF); msgs: list of (raw, nfds, hidx)."""
        self.role = role
        self.tag = tag
        self.lead = 1 if role == 'server' else 0
        self.lines = lines
        self.msgs = msgs
        s = b'\0' * self.lead
        self.line_end = []
        for ln in lines:
            s += ln + b'\r\n'
            self.line_end.append(len(s))
        for raw, _, _ in msgs:
            s += raw
        self.stream = s
        self.n = len(s)
        self.total_fds = sum(m[1] for m in msgs)
        self.ids = {}
        for i, (raw, _, _) in enumerate(msgs, 1):
            self.ids.setdefault(raw, i)

    def module(self, name, maxread=None):
        body = [
            'Lead == %d' % self.lead,
            'LineEnd == %s' % to_tla(tuple(self.line_end)),
            'MsgLen == %s' % to_tla(tuple(len(m[0]) for m in self.msgs)),
            'MsgFds == %s' % to_tla(tuple(m[1] for m in self.msgs)),
            'HIdx == %s' % to_tla(tuple(tuple(m[2]) for m in self.msgs)),
            'CumLen == %s' % to_tla(tuple(itertools.accumulate(len(m[0]) for m in self.msgs))),
            'CumFds == %s' % to_tla(tuple(itertools.accumulate(m[1] for m in self.msgs))),
            'MaxRead == %d' % (maxread or self.n),
        ]
        return '---- MODULE FramingData ----\n%s\n====\n' % '\n'.join(body)

    def cfg(self, invs, spec=True):
        s = 'SPECIFICATION Spec\n' if spec else ''
        if spec:
            s += 'CHECK_DEADLOCK FALSE\n' + ''.join('INVARIANT %s\n' % i for i in invs)
        return s


class FramingDriver:
    fdq_verdict = False

    def __init__(self, inst, kind='stub'):
        self.inst = inst
        self.kind = kind
        fakes.install_clock()
        self.t = fakes.MemoryTransport()
        if kind == 'stub':
            auth = type('Auth', (StubAuth,), {'nl': max(1, len(inst.lines))})
            p = StubProto()
            p.authenticator = auth
            p._client = inst.role != 'server'
        else:
            p = RealClient()
        p._init_rec()
        p.factory = _Fac()
        self.p = p
        p.makeConnection(self.t)
        self.auth = getattr(p, '_dbusAuth', None)
        if inst.role == 'none':
            # connection taken past authentication before the first modelled byte
            p._dbusAuth = None
            p._firstByte = False
            p.setAuthenticationSucceeded()
            p.nauth = 0
        self.pos = 0
        self.nfd = 0
        self.ndel = 0
        # another connection of the same process, already authenticated, receives bytes of its own in between the
        # reads of this one (a message of 200 bytes that never completes): connections share nothing
        self.other = StubProto()
        self.other.authenticator = type('Auth', (StubAuth,), {'nl': 1})
        self.other._init_rec()
        self.other.factory = _Fac()
        self.other.makeConnection(fakes.MemoryTransport())
        self.other._dbusAuth = None
        self.other._firstByte = False
        self.other.setAuthenticationSucceeded()
        self.other_stream = refwire.msg(4, 77, [('path', '/other'), ('interface', 'o.o'), ('member', 'Never')], 's', ['z' * 200])
        self.other_pos = 0
        try:
            self.other.fileDescriptorReceived(FD0 + 900)      # ... and a descriptor of its own, waiting for its message
        except Exception:
            pass

    def apply(self, name, args):
        if name == 'Read':
            k = args[0]
            data = self.inst.stream[self.pos:self.pos + k]
            assert len(data) == k
            self.pos += k
            if self.other_pos < len(self.other_stream) - 40:
                step = 1 + (self.pos % 23)
                self.other.dataReceived(self.other_stream[self.other_pos:self.other_pos + step])
                self.other_pos += step
            self.p.dataReceived(data)
        elif name == 'FdArrive':
            self.nfd += 1
            self.p.fileDescriptorReceived(FD0 + self.nfd)
        else:
            raise ValueError(name)

    def project(self):
        p = self.p
        inst = self.inst
        # identity of a delivered message = its bytes; the same bytes may occur more than once in a stream (a message object
        # sent twice): the k-th delivery of those bytes is the k-th message carrying them
        occ = {}
        for i, m in enumerate(inst.msgs, 1):
            occ.setdefault(m[0], []).append(i)
        seen = {}
        ids = []
        for r in p.raws:
            lst = occ.get(r, [])
            k = seen.get(r, 0)
            seen[r] = k + 1
            ids.append(lst[k] if k < len(lst) else 0)
        st = {
            'pos': self.pos,
            'authed': p.nauth,
            'delivered': tuple(ids),
            'batch': tuple(ids[self.ndel:]),
            'nfd': self.nfd,
        }
        # what the UNIX_FD arguments of each delivered message resolved to (positions of the 'h'
        # arguments are taken from the signature with the independent splitter)
        if len(p.parsed) == len(p.raws):
            res = []
            for m in p.parsed:
                body = m.body or []
                types = refwire.split(m.signature or '')
                vals = []

                def walk(t, x):
                    # descriptors in signature order, wherever they sit (struct members, array elements, dict values)
                    if t == 'h' or (t == 'v' and isinstance(x, int) and not isinstance(x, bool)):
                        # (the variants of these instances hold nothing but descriptors)
                        vals.append((x - FD0) if isinstance(x, int) and not isinstance(x, bool) else 0)
                    elif t[0] == '(':
                        for tt, xx in zip(refwire.split(t[1:-1]), x):
                            walk(tt, xx)
                    elif t[0] == 'a' and t[1] == '{':
                        kt, vt = refwire.split(t[2:-1])
                        for k in x:                   # decoded dicts keep wire order
                            walk(kt, k)
                            walk(vt, x[k])
                    elif t[0] == 'a':
                        for xx in x:
                            walk(t[1:], xx)
                for t, x in zip(types, body):
                    walk(t, x)
                res.append(tuple(vals))
            st['resolved'] = tuple(res)
        else:
            st['resolved'] = ('parsed/raw count mismatch', len(p.parsed), len(p.raws))
        st['rbatch'] = tuple(st['resolved'][self.ndel:])
        self.ndel = len(ids)
        if self.kind == 'stub':
            st['linesFed'] = self.auth.n if inst.lines else 0
        if hasattr(p, '_authenticated'):
            st['diag_mode'] = 'bin' if p._authenticated else 'line'
        if hasattr(p, '_buffer'):
            st['diag_bufStart'] = self.pos - len(p._buffer) + 1
        if hasattr(p, '_nextMsgLen'):
            st['diag_nextLen'] = p._nextMsgLen
        q = getattr(p, '_receivedFDs', None)
        if isinstance(q, list):
            st['fdq' if self.fdq_verdict else 'diag_fdq'] = tuple(x - FD0 for x in q)
        if self.t.disconnecting:
            st['closed'] = True
        return st


def walk(g, acts):
    """node ids along acts from the (single) initial node; raises KeyError if the model does not
    enable an action."""
    n = g.init[0]
    out = [n]
    for a in acts:
        nxt = None
        for lab, d in g.succ.get(n, ()):
            if lab[0] == a[0] and tuple(lab[1]) == tuple(a[1]):
                nxt = d
                break
        if nxt is None:
            raise KeyError('model does not enable %r' % (a,))
        n = nxt
        out.append(n)
    return out


def model_graph(chk, inst, invs, label, maxread=None, timeout=900):
    name = 'Framing_' + inst.tag
    extra = {'FramingData.tla': inst.module(name, maxread), name + '.cfg': inst.cfg(invs)}
    res, g = tlc.dump_graph('Framing', name + '.cfg', extra=extra, timeout=timeout)
    chk.tlc_stats(res, label)
    if not res.ok:
        chk.violation('model: %s %s violated in %s' % (res.violation + (label,)),
                      dict(kind='TLC', trace=[(a, repr(s)) for a, s in res.trace]))
    return g


def replay_acts(chk, g, inst, kind, acts_list, label, pid):
    """spec -> code over explicit action lists"""
    n = 0
    for acts in acts_list:
        ids = walk(g, acts)
        states = [g.nodes[i] for i in ids]
        failed, dif, steps = core.step_compare(lambda a: FramingDriver(inst, kind), acts, states)
        n += 1
        if failed is not None:
            key = 'replay %s: after %s impl differs from model in %s' % (
                label, acts[failed - 1][0] if failed else 'Init', ','.join(sorted(set(d[0] for d in dif))))
            chk.violation(key, dict(
                kind='spec->code', module=pid.lower(), params={'inst': inst.tag, 'kind': kind}, model=label,
                failed_step=failed, actions=[[a[0], to_tla(tuple(a[1]))] for a in acts],
                model_states=[to_tla(s) for s in states],
                diff=[(k, repr(a), repr(b)) for k, a, b in dif],
                impl_states=[(repr(a), {k: repr(v) for k, v in s.items()}) for a, s in steps[-3:]]))
            if len(chk.violations) >= 5:
                break
        elif n <= 2:
            chk.sample({'replayed(%s)' % label: [[a[0]] + list(a[1]) for a in acts][:20]})
    chk.traces += n
    chk.notes[label + '_replayed'] = n
    return n


def record(inst, kind, acts):
    drv = FramingDriver(inst, kind)
    tr = [({'n': 'Init'}, drv.project())]
    for name, args in acts:
        drv.apply(name, args)
        rec = {'n': name}
        rec.update(dict(zip(ACTIONS[name], args)))
        tr.append((rec, drv.project()))
    return tr


def random_partition(rng, n, style):
    """list of read sizes summing to n"""
    if style == 'bytes':
        return [1] * n
    if style == 'one':
        return [n]
    out = []
    left = n
    while left:
        if style == 'small':
            k = rng.randint(1, 9)
        elif style == 'big':
            k = rng.randint(1, max(1, n // 2))
        else:
            k = rng.choice([1, 2, 3, 7, 8, 15, 16, 17, 24, 31, 64, 100, 1000, 4096, 65536])
        k = min(k, left)
        out.append(k)
        left -= k
    return out


def with_fds(rng, inst, reads):
    """interleave FdArrive events into a list of read sizes respecting the stream rule: descriptors
    of message i arrive before the read that completes message i (and in order)."""
    ends = []
    pos = inst.lead + sum(len(l) + 2 for l in inst.lines)
    for raw, nf, _ in inst.msgs:
        pos += len(raw)
        ends.append((pos, nf))
    acts = []
    arrived = 0
    p = 0
    for k in reads:
        need = sum(nf for e, nf in ends if e <= p + k)
        # some extra descriptors may come early
        extra = rng.choice([0, 0, 1, 2, inst.total_fds])
        want = min(inst.total_fds, max(need, arrived + (extra if rng.random() < 0.4 else 0)))
        while arrived < want:
            acts.append(('FdArrive', ()))
            arrived += 1
        acts.append(('Read', (k,)))
        p += k
    while arrived < inst.total_fds and rng.random() < 0.5:
        acts.append(('FdArrive', ()))
        arrived += 1
    return acts
