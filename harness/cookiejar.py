"""Part of C06: DBUS_COOKIE_SHA1 with several connections sharing one keyring (spec/CookieJar.tla).
Driver: N real BusProtocol / BusAuthenticator / BusCookieAuthenticator instances over MemoryTransports,
one temporary keyring directory; the conforming client is written here (it looks the cookie up in the
keyring file under the id it was given, first match); time passing = the file's timestamps are aged."""
import binascii
import getpass
import hashlib
import os
import shutil
import tempfile
import time

from . import core, tlc, fakes

import txdbus.protocol
from txdbus import authentication, bus as txbus

ACTIONS = {'Challenge': ('c',), 'Answer': ('c', 'kind'), 'Cancel': ('c',), 'Drop': ('c',), 'Expire': ()}
OBS = ['file', 'st', 'made', 'resp']
BASE = 'CookieJar'
USER = getpass.getuser().encode()
MAXCOOKIES = 4
# which deletion rule the model uses (TXV_JAR_BYVALUE=0: the rule txdbus had before the fix - used to show the defect)
BYVALUE = os.environ.get('TXV_JAR_BYVALUE', '1') != '0'


class _Bus:
    uuid = b'c0ffee'


class _Fac:
    bus = _Bus()


class JarDriver:
    def __init__(self, conns):
        fakes.install_clock()
        self.conns = list(conns)
        self.keyring = tempfile.mkdtemp(prefix='txv-jar-', dir='/dev/shm' if os.path.isdir('/dev/shm') else None)
        os.chmod(self.keyring, 0o700)
        keyring = self.keyring

        class Cookie(authentication.BusCookieAuthenticator):
            def _step_one(self, username, keyring_dir=None):
                return authentication.BusCookieAuthenticator._step_one(self, username, keyring)
        auth_cls = type('Auth', (authentication.BusAuthenticator,), {'authenticators': {b'DBUS_COOKIE_SHA1': Cookie}})
        outer = self

        class Proto(txbus.BusProtocol):
            authenticator = auth_cls

            def connectionAuthenticated(self):
                pass
        self.saved_linux = txdbus.protocol._is_linux
        txdbus.protocol._is_linux = False
        self.p, self.t = {}, {}
        for c in self.conns:
            self.t[c] = fakes.MemoryTransport()
            self.p[c] = Proto()
            self.p[c].factory = _Fac()
            self.p[c].makeConnection(self.t[c])
            self.p[c].dataReceived(b'\0')
        self.chal = {}
        self.resp = {c: '-' for c in self.conns}
        self.st = {c: 'idle' for c in self.conns}
        self.vals = {}            # cookie hex -> creation number
        self.exc = None

    def close(self):
        txdbus.protocol._is_linux = self.saved_linux
        shutil.rmtree(self.keyring, ignore_errors=True)

    def _files(self):
        return [f for f in os.listdir(self.keyring) if not f.endswith('.lock')]

    def _lines(self):
        fs = self._files()
        if not fs:
            return None, []
        path = os.path.join(self.keyring, fs[0])
        with open(path, 'rb') as f:
            return path, [ln.split() for ln in f if ln.strip()]

    def _feed(self, c, line):
        before = len(self.t[c].log)
        try:
            self.p[c].dataReceived(line + b'\r\n')
        except Exception as ex:          # Twisted would drop the connection
            self.exc = ex
            self.t[c].loseConnection()
        out = b''.join(e[1] for e in self.t[c].log[before:] if e[0] == 'bytes')
        closed = any(e[0] == 'close' for e in self.t[c].log[before:])
        words = [ln.split(b' ') for ln in out.split(b'\r\n') if ln]
        return words, closed

    def apply(self, name, args):
        if name == 'Challenge':
            c = args[0]
            words, closed = self._feed(c, b'AUTH DBUS_COOKIE_SHA1 ' + binascii.hexlify(USER))
            self.resp[c] = words[-1][0].decode() if words else ('close' if closed else 'silence')
            if words and words[-1][0] == b'DATA':
                self.chal[c] = binascii.unhexlify(words[-1][1]).split()
                self.st[c] = 'challenged'
            else:
                self.st[c] = 'idle'
        elif name == 'Answer':
            c, kind = args
            ctx, cid, sch = self.chal[c]
            cookie = None
            try:
                with open(os.path.join(self.keyring, ctx.decode()), 'rb') as f:
                    for ln in f:
                        k_id, k_time, k_cookie = ln.split()
                        if k_id == cid:
                            cookie = k_cookie
                            break
            except OSError:
                pass
            if cookie is None or kind == 'wrong':
                cookie = (cookie or b'00')[::-1] + b'0'
            cch = binascii.hexlify(hashlib.sha1(b'client').digest())
            rsp = binascii.hexlify(hashlib.sha1(b':'.join([sch, cch, cookie])).digest())
            words, closed = self._feed(c, b'DATA ' + binascii.hexlify(cch + b' ' + rsp))
            self.resp[c] = words[-1][0].decode() if words else ('close' if closed else 'silence')
            self.st[c] = 'authed' if self.resp[c] == 'OK' else 'idle'
        elif name == 'Cancel':
            c = args[0]
            words, closed = self._feed(c, b'CANCEL')
            self.resp[c] = words[-1][0].decode() if words else ('close' if closed else 'silence')
            self.st[c] = 'idle'
        elif name == 'Drop':
            c = args[0]
            self.p[c].connectionLost(fakes.conn_done())
            self.resp[c] = '-'
            self.st[c] = 'gone'
        elif name == 'Expire':
            path, lines = self._lines()
            if path:
                with open(path, 'wb') as f:
                    for k_id, k_time, k_cookie in lines:
                        f.write(b' '.join([k_id, str(int(time.time()) - 100).encode(), k_cookie]) + b'\n')
        else:
            raise ValueError(name)

    def project(self):
        path, lines = self._lines()
        now = time.time()
        rows = []
        for k_id, k_time, k_cookie in lines:
            if k_cookie not in self.vals:
                self.vals[k_cookie] = len(self.vals) + 1
            rows.append({'id': int(k_id), 'val': self.vals[k_cookie], 'old': abs(now - int(k_time)) >= 30})
        nfiles = len(self._files())
        if nfiles > 1:
            rows.append({'id': -1, 'val': -nfiles, 'old': False})
        return {'file': tuple(rows), 'st': tuple(self.st[c] for c in self.conns), 'made': len(self.vals),
                'resp': tuple(self.resp[c] for c in self.conns)}


def make_driver(params, acts):
    return JarDriver(range(1, params['conns'] + 1))


def trace_cfg(params):
    return 'CONSTANTS\n Conn = {%s}\n MaxCookies = %d\n DeleteByValue = %s\n' % (
        ', '.join(map(str, range(1, params['conns'] + 1))), 1000, 'TRUE' if BYVALUE else 'FALSE')


def rerecord(params, acts):
    drv = make_driver(params, acts)
    try:
        tr = [({'n': 'Init'}, drv.project())]
        for n, a in acts:
            drv.apply(n, a)
            rec = {'n': n}
            rec.update(dict(zip(ACTIONS[n], a)))
            tr.append((rec, drv.project()))
        return tr
    finally:
        drv.close()


replay_file = core.replay_file
INVS = ['UniqueLiveIds', 'OwnCookieFound', 'NoLeak']


def cfg(nconn, byvalue=None, props=None):
    byvalue = BYVALUE if byvalue is None else byvalue
    props = byvalue if props is None else props
    s = ('SPECIFICATION Spec\nCONSTANTS\n Conn = {%s}\n MaxCookies = %d\n DeleteByValue = %s\n' % (
        ', '.join(map(str, range(1, nconn + 1))), MAXCOOKIES, 'TRUE' if byvalue else 'FALSE'))
    s += ''.join('INVARIANT %s\n' % i for i in INVS)
    if props:
        s += 'PROPERTY ConformingAccepted\nPROPERTY WrongNeverAccepted\nPROPERTY NoCollateral\n'
    return s + 'CHECK_DEADLOCK FALSE\n'


def random_history(rng, nconn, steps):
    drv = JarDriver(range(1, nconn + 1))
    try:
        tr = [({'n': 'Init'}, drv.project())]
        made = 0
        for _ in range(steps):
            idle = [c for c in drv.conns if drv.st[c] == 'idle']
            chal = [c for c in drv.conns if drv.st[c] == 'challenged']
            alive = [c for c in drv.conns if drv.st[c] != 'gone']
            r = rng.random()
            if idle and made < MAXCOOKIES and (r < 0.4 or not chal):
                a = ('Challenge', (rng.choice(idle),))
                made += 1
            elif chal and r < 0.75:
                a = ('Answer', (rng.choice(chal), 'conforming' if rng.random() < 0.7 else 'wrong'))
            elif chal and r < 0.85:
                a = ('Cancel', (rng.choice(chal),))
            elif alive and r < 0.9:
                a = ('Drop', (rng.choice(alive),))
            elif any(not row['old'] for row in tr[-1][1]['file']):
                a = ('Expire', ())
            else:
                continue
            drv.apply(*a)
            rec = {'n': a[0]}
            rec.update(dict(zip(ACTIONS[a[0]], a[1])))
            tr.append((rec, drv.project()))
        return tr
    finally:
        drv.close()


def stage(chk, rng, thorough):
    """called from c06.run"""
    # the deletion rule txdbus had (first live line with the id) lets a stale authenticator remove another
    # connection's cookie: the design-level check must say so, or the model has lost its teeth
    res, _ = tlc.run(BASE, 'j.cfg', extra={'j.cfg': cfg(2, byvalue=False, props=True)}, timeout=300)
    chk.tlc_stats(res, 'CookieJar, deletion by id only (deviation)')
    chk.notes['deviation_delete_by_id_violates_NoCollateral'] = res.violation is not None
    if res.violation is None:
        raise core.Machinery('CookieJar: deletion by id no longer violates NoCollateral')
    nconn = 3
    params = {'conns': nconn}
    res, g = tlc.dump_graph(BASE, 'j.cfg', extra={'j.cfg': cfg(nconn)}, timeout=900)
    chk.tlc_stats(res, 'CookieJar: %d connections, %d cookies' % (nconn, MAXCOOKIES))
    if not res.ok:
        chk.violation('model: CookieJar %s %s' % res.violation, dict(kind='TLC', trace=repr(res.trace[-3:])))
    chk.notes['cookiejar_graph'] = [len(g.nodes), g.nedges]
    drivers = []

    def mk(acts):
        while drivers:
            drivers.pop().close()
        d = JarDriver(range(1, nconn + 1))
        drivers.append(d)
        return d
    tours = list(core.edge_cover_tours(g, 30))
    if not thorough and len(tours) > 1500:
        tours = rng.sample(tours, 1500)
    try:
        core.replay_paths(chk, g, tours, mk, 'cookiejar tours', 'cookiejar', params)
        core.replay_paths(chk, g, list(core.random_walks(g, 3000 if thorough else 300, 14, rng)), mk, 'cookiejar walks',
                          'cookiejar', params)
    finally:
        for d in drivers:
            d.close()
    batch = []
    for _ in range(200 if thorough else 40):
        try:
            batch.append(random_history(rng, 4, rng.randint(6, 16)))
        except Exception:
            chk.violation('recording (cookie jar): implementation raised', dict(kind='exception', module='cookiejar',
                                                                                trace=core.traceback_str()))
            break
    core.validate_and_report(chk, BASE, OBS, ACTIONS, batch, trace_cfg({'conns': 4}), INVS, 'cookiejar', {'conns': 4},
                             'cookie jar random 4 connections', nproc=6)
