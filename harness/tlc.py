"""Thin driver around TLC: model checking, state-graph dump, simulation, output parsing.

Every run happens in a private scratch directory (mkdtemp) that holds a copy of spec/*.tla
plus generated modules; it is removed afterwards.  Nothing is kept under /tmp.
"""
import os
import re
import shutil
import subprocess
import tempfile
import time

from . import tlaval

ROOT = os.path.dirname(os.path.dirname(os.path.abspath(__file__)))
SPEC = os.path.join(ROOT, 'spec')
JAR = '/opt/veriftools/tla/tla2tools.jar'
CP = JAR + ':/opt/veriftools/tla/CommunityModules-deps.jar'


class TLCError(Exception):
    """Machinery failure (parse error, crash, timeout) - maps to exit code 2."""


class Result:
    def __init__(self):
        self.ok = False
        self.generated = 0
        self.distinct = 0
        self.depth = 0
        self.violation = None      # (kind, name)
        self.trace = []            # [(action_label, state_dict)]
        self.out = ''
        self.wall = 0.0
        self.printed = []          # values printed with PrintT, raw strings
        self.coverage = {}         # action -> (distinct, taken)
        self.cmd = ''


def scratch():
    return tempfile.mkdtemp(prefix='txv-')


def prepare(extra=None, only=None):
    d = scratch()
    for f in os.listdir(SPEC):
        if f.endswith('.tla') or f.endswith('.cfg'):
            shutil.copy(os.path.join(SPEC, f), os.path.join(d, f))
    for name, text in (extra or {}).items():
        with open(os.path.join(d, name), 'w') as fh:
            fh.write(text)
    return d


_STATE_HDR = re.compile(r'^State (\d+): <(.*?)>\s*$|^State (\d+): (Stuttering)\s*$')


def parse_output(out, res):
    m = None
    for m in re.finditer(r'(\d+) states generated, (\d+) distinct states found', out):
        pass
    if m:
        res.generated = int(m.group(1))
        res.distinct = int(m.group(2))
    m = re.search(r'depth of the complete state graph search is (\d+)', out)
    if m:
        res.depth = int(m.group(1))
    v = re.search(r'Error: Invariant (\S+) is violated', out)
    if v:
        res.violation = ('invariant', v.group(1))
    v2 = re.search(r'Error: Action property (\S+) is violated', out)
    if v2:
        res.violation = ('action_property', v2.group(1))
    if 'Error: Deadlock reached' in out:
        res.violation = ('deadlock', 'deadlock')
    if 'Temporal properties were violated' in out:
        res.violation = ('temporal', 'temporal')
    v3 = re.search(r'Error: The postcondition (\S+)? ?(?:is|was)? ?(?:violated|false)', out)
    if 'postcondition' in out.lower() and ('violated' in out.lower() or 'false' in out.lower()) and res.violation is None:
        res.violation = ('postcondition', v3.group(1) if v3 and v3.group(1) else 'post')
    # error trace
    lines = out.split('\n')
    i = 0
    cur = None
    buf = []
    trace = []
    while i < len(lines):
        ln = lines[i]
        h = _STATE_HDR.match(ln)
        if h:
            if cur is not None:
                trace.append((cur, '\n'.join(buf)))
            cur = h.group(2) or h.group(4)
            buf = []
        elif cur is not None:
            if ln.startswith('/\\ ') or (buf and ln.startswith(' ')) or (buf and ln and not re.match(r'^[A-Z][a-z]', ln) and not ln.startswith('State')):
                buf.append(ln)
            elif ln.strip() == '':
                trace.append((cur, '\n'.join(buf)))
                cur = None
                buf = []
            else:
                if buf:
                    trace.append((cur, '\n'.join(buf)))
                    cur = None
                    buf = []
                else:
                    # single-variable state: "x = 3"
                    buf.append(ln)
        i += 1
    if cur is not None and buf:
        trace.append((cur, '\n'.join(buf)))
    res.trace = []
    for a, t in trace:
        try:
            res.trace.append((a.split(' line ')[0].strip(), tlaval.parse_state(t)))
        except Exception:
            res.trace.append((a, {'_raw': t}))
    # coverage lines:  <Action line 12, col 1 to line 14, col 20 of module X>: 12:34
    for m in re.finditer(r'^<(\w+) line \d+, col \d+ to line \d+, col \d+ of module (\w+)>: (\d+):(\d+)', out, re.M):
        res.coverage[m.group(1)] = (int(m.group(3)), int(m.group(4)))


def run(module, cfg, workdir=None, workers=16, timeout=600, args=(), gc='parallel',
        extra=None, env=None, keep=False, heap='8g'):
    """Run TLC on `module` (file name without .tla inside the scratch copy of spec/) with
    config file name `cfg`.  Returns (Result, workdir) - workdir is removed unless keep."""
    own = workdir is None
    if own:
        workdir = prepare(extra)
    elif extra:
        for name, text in extra.items():
            with open(os.path.join(workdir, name), 'w') as fh:
                fh.write(text)
    meta = os.path.join(workdir, 'meta-%d' % (time.time_ns() % 10**9))
    gcopt = {'parallel': ['-XX:+UseParallelGC', '-XX:ParallelGCThreads=4'],
             'serial': ['-XX:+UseSerialGC']}[gc]
    cmd = ['java'] + gcopt + ['-Xmx' + heap, '-Xss64m', '-cp', CP, 'tlc2.TLC',
                              '-config', cfg, '-workers', str(workers), '-metadir', meta,
                              '-noGenerateSpecTE'] + list(args) + [module]
    res = Result()
    res.cmd = ' '.join(cmd)
    e = dict(os.environ)
    e.update(env or {})
    t0 = time.time()
    try:
        p = subprocess.run(cmd, cwd=workdir, stdout=subprocess.PIPE, stderr=subprocess.STDOUT,
                           timeout=timeout, env=e)
    except subprocess.TimeoutExpired as ex:
        subprocess.run(['pkill', '-f', meta])
        if own and not keep:
            shutil.rmtree(workdir, ignore_errors=True)
        raise TLCError('TLC timeout after %ss: %s' % (timeout, ' '.join(cmd))) from ex
    res.wall = time.time() - t0
    res.out = p.stdout.decode('utf-8', 'replace')
    parse_output(res.out, res)
    finished = 'Model checking completed. No error has been found.' in res.out or \
        'Finished in' in res.out
    res.ok = ('No error has been found' in res.out) and res.violation is None
    if not finished or (not res.ok and res.violation is None):
        # parse / semantic / evaluation error
        if res.violation is None:
            if own and not keep:
                shutil.rmtree(workdir, ignore_errors=True)
            i = res.out.find('Error:')
            raise TLCError('TLC failed on %s/%s:\n%s\n...\n%s' % (module, cfg, res.out[max(0, i - 200):i + 1200], res.out[-1500:]))
    shutil.rmtree(meta, ignore_errors=True)
    if own and not keep:
        shutil.rmtree(workdir, ignore_errors=True)
        workdir = None
    return res, workdir


_NODE = re.compile(r'^(-?\d+) \[label="((?:[^"\\]|\\.)*)"(.*)$')
_EDGE = re.compile(r'^(-?\d+) -> (-?\d+) \[label="((?:[^"\\]|\\.)*)"')


def _unescape(s):
    out = []
    i = 0
    n = len(s)
    while i < n:
        c = s[i]
        if c == '\\' and i + 1 < n:
            d = s[i + 1]
            if d == 'n':
                out.append('\n')
            elif d == '\\':
                out.append('\\')
            elif d == '"':
                out.append('"')
            else:
                out.append(c + d)
            i += 2
        else:
            out.append(c)
            i += 1
    return ''.join(out)


def parse_label(lab):
    """'Issue(1,[dl |-> TRUE])' -> ('Issue', (1, {'dl': True}))"""
    i = lab.find('(')
    if i < 0:
        return (lab.strip(), ())
    return (lab[:i].strip(), tlaval.parse('<<' + lab[i + 1:lab.rindex(')')] + '>>'))


class Graph:
    def __init__(self):
        self.nodes = {}    # id -> state dict
        self.init = []     # ids
        self.succ = {}     # id -> [(label, dst)]
        self.nedges = 0


def dump_graph(module, cfg, workers=16, timeout=600, extra=None):
    """Model check and dump the reachable state graph.  Returns (Result, Graph)."""
    wd = prepare(extra)
    try:
        dot = os.path.join(wd, 'graph')
        res, _ = run(module, cfg, workdir=wd, workers=workers, timeout=timeout,
                     args=['-dump', 'dot,actionlabels', dot])
        g = Graph()
        path = dot + '.dot'
        with open(path) as fh:
            for ln in fh:
                ln = ln.rstrip('\n')
                m = _EDGE.match(ln)
                if m:
                    s, d, lab = int(m.group(1)), int(m.group(2)), parse_label(_unescape(m.group(3)))
                    g.succ.setdefault(s, []).append((lab, d))
                    g.nedges += 1
                    continue
                m = _NODE.match(ln)
                if m:
                    nid = int(m.group(1))
                    g.nodes[nid] = tlaval.parse_state(_unescape(m.group(2)))
                    if 'style = filled' in m.group(3):
                        g.init.append(nid)
        return res, g
    finally:
        shutil.rmtree(wd, ignore_errors=True)


def simulate(module, cfg, num, depth, seed=0, timeout=600, extra=None):
    """Run TLC in simulation mode, return list of behaviours [[(action, state), ...], ...]."""
    wd = prepare(extra)
    try:
        sim = os.path.join(wd, 'sim')
        os.mkdir(sim)
        res, _ = run(module, cfg, workdir=wd, workers=1, timeout=timeout, gc='serial',
                     args=['-simulate', 'file=%s/tr,num=%d' % (sim, num), '-depth', str(depth),
                           '-seed', str(seed)])
        behs = []
        for f in sorted(os.listdir(sim)):
            txt = open(os.path.join(sim, f)).read()
            beh = []
            for m in re.finditer(r'\\\* <(\w+)[^>]*>\s*\nSTATE_\d+ ==\s*\n(.*?)(?=\n\\\*|\n=====|\Z)', txt, re.S):
                beh.append((m.group(1), tlaval.parse_state(m.group(2).strip())))
            if beh:
                behs.append(beh)
        return res, behs
    finally:
        shutil.rmtree(wd, ignore_errors=True)


def dump_states(module, cfg, workers=16, timeout=900, extra=None):
    """Model check and return every reachable state as a dict (plain -dump)."""
    wd = prepare(extra)
    try:
        st = os.path.join(wd, 'states')
        res, _ = run(module, cfg, workdir=wd, workers=workers, timeout=timeout, args=['-dump', st])
        states = []
        with open(st + '.dump') as fh:
            txt = fh.read()
        for blk in re.split(r'\n\n(?=State \d+:)', txt):
            blk = blk.strip()
            if not blk:
                continue
            nl = blk.find('\n')
            states.append(tlaval.parse_state(blk[nl + 1:]))
        return res, states
    finally:
        shutil.rmtree(wd, ignore_errors=True)
