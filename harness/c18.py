"""C18 - name and path validators accept exactly the DBus grammar.
Spec: spec/Validators.tla (grammar + automaton over character classes; generator machine)."""
import random

from . import fakes  # noqa: F401  (installs the quiet log observer, repo path)
from . import core, tlc
from txdbus import marshal, message
from txdbus.error import MarshallingError

OBS = ['s', 'v']
CHARS = {'L': 'abzAZmQ', 'D': '0198', 'U': '_', '.': '.', '-': '-', ':': ':', '/': '/',
         'X': 'é中٣²ß１', 'O': ' +@\t\n\0~*\\"\'=,;$%()'}
CLASSES = list(CHARS)
CFG = ('SPECIFICATION Spec\nCONSTANTS\n  MaxLen = %d\n  Classes = {"L", "D", "U", ".", "-", ":", "/", "X", "O"}\n'
       'INVARIANT GrammarEqAutomaton\nCHECK_DEADLOCK FALSE\n')
VALIDATORS = {'path': marshal.validateObjectPath, 'iface': marshal.validateInterfaceName,
              'err': marshal.validateErrorName, 'member': marshal.validateMemberName,
              'bus': marshal.validateBusName}


def instantiate(classes, k):
    return ''.join(CHARS[c][(k + i) % len(CHARS[c])] for i, c in enumerate(classes))


def verdict(fn, *a, **kw):
    try:
        fn(*a, **kw)
        return True
    except MarshallingError:
        return False
    except Exception as ex:
        return 'raised ' + type(ex).__name__


def direct(text):
    return {k: verdict(f, text) for k, f in VALIDATORS.items()}


def via_ctors(text, variant):
    """the same five verdicts obtained by trying to construct messages carrying the string"""
    M = message
    if variant == 0:
        return {'path': verdict(M.MethodCallMessage, text, 'M') if text != '/org/freedesktop/DBus/Local' else False,
                'iface': verdict(M.MethodCallMessage, '/p', 'M', interface=text),
                'err': verdict(M.ErrorMessage, text, 5),
                'member': verdict(M.MethodCallMessage, '/p', text),
                'bus': verdict(M.MethodCallMessage, '/p', 'M', destination=text)}
    if variant == 1:
        return {'path': verdict(M.SignalMessage, text, 'M', 'a.b'),
                'iface': verdict(M.SignalMessage, '/p', 'M', text),
                'err': verdict(M.ErrorMessage, text, 5, destination=':1.2'),
                'member': verdict(M.SignalMessage, '/p', text, 'a.b'),
                'bus': verdict(M.MethodReturnMessage, 5, destination=text)}
    return {'path': verdict(M.SignalMessage, text, 'M', 'a.b', destination='a.b'),
            'iface': verdict(M.SignalMessage, '/p', 'M', text, signature='s', body=['x']),
            'err': verdict(M.ErrorMessage, text, 5, signature='s', body=['x']),
            'member': verdict(M.MethodCallMessage, '/p', text, interface='a.b'),
            'bus': verdict(M.ErrorMessage, 'a.b', 5, destination=text) if variant == 2 else
            verdict(M.SignalMessage, '/p', 'M', 'a.b', destination=text)}


def run(tier, seed):
    chk = core.Check('C18', tier, seed)
    rng = random.Random(seed)
    thorough = tier == 'thorough'
    ml = 6 if thorough else 5
    res, states = tlc.dump_states('Validators', 'v.cfg', extra={'v.cfg': CFG % ml}, timeout=1500)
    chk.tlc_stats(res, 'Validators MaxLen=%d' % ml)
    if not res.ok:
        chk.violation('model: Validators %s %s' % res.violation, dict(kind='TLC', trace=repr(res.trace[-1:])))
    nbad = 0
    ctor_len = 5 if thorough else 4
    for i, st in enumerate(states):
        cls = st['s']
        want = st['v']
        text = instantiate(cls, seed + i)
        checks = [('validator', direct(text))]
        if len(cls) <= ctor_len or len(cls) > 200:
            checks += [('constructor/%d' % k, via_ctors(text, k)) for k in range(4)]
        for how, got in checks:
            bad = [k for k in want if got[k] != want[k]]
            if bad:
                nbad += 1
                if nbad <= 5:
                    chk.violation('%s %s: %r (classes %s) implementation says %r, grammar says %r' % (
                        how, bad[0], text if len(text) < 40 else text[:20] + '...(%d)' % len(text), ''.join(cls)[:40],
                        got[bad[0]], want[bad[0]]),
                        dict(kind='spec->code', module='c18', text=text, classes=list(cls), how=how,
                             implementation=got, grammar=want))
                break
        chk.traces += 1
        if i % 20000 == 11:
            chk.sample({'string': text, 'classes': ''.join(cls), 'grammar': want})
    # ---- code -> spec: random longer strings, verdicts judged by TLC
    traces = []
    texts = []
    n = 30000 if thorough else 600
    for i in range(n):
        k = rng.choice([7, 8, 10, 20, 60, 254, 255, 256, 300])
        mode = i % 4
        if mode == 0:
            cls = [rng.choice(CLASSES) for _ in range(k)]
        elif mode == 1:      # mostly valid dotted names with one perturbation
            cls = []
            while len(cls) < k:
                cls += [rng.choice('LU')] + [rng.choice('LDU') for _ in range(rng.randint(0, 5))] + ['.']
            cls = cls[:k]
            if cls[-1] == '.' and rng.random() < 0.7:
                cls[-1] = 'L'
            if rng.random() < 0.5:
                cls[rng.randrange(len(cls))] = rng.choice(CLASSES)
        elif mode == 2:      # paths
            cls = []
            while len(cls) < k:
                cls += ['/'] + [rng.choice('LDU') for _ in range(rng.randint(0 if rng.random() < 0.1 else 1, 4))]
            cls = cls[:k]
            if rng.random() < 0.3:
                cls[rng.randrange(len(cls))] = rng.choice(CLASSES)
        else:                # unique names
            cls = [':']
            while len(cls) < k:
                cls += [rng.choice('LDU-') for _ in range(rng.randint(1, 4))] + ['.']
            cls = cls[:k]
            if rng.random() < 0.5 and cls[-1] == '.':
                cls[-1] = 'D'
        text = instantiate(cls, rng.randrange(100))
        got = direct(text) if i % 3 else via_ctors(text, i % 4)
        traces.append([({'n': 'Init'}, {'s': tuple(cls), 'v': got})])
        texts.append(text)
    # names everybody uses, with one thing wrong: something inserted, or an ill-formed element appended
    def class_of(ch):
        if ch.isascii() and ch.isalpha():
            return 'L'
        if ch in '0123456789':
            return 'D'
        return {'_': 'U', '.': '.', '-': '-', ':': ':', '/': '/'}.get(ch, 'O' if ch.isascii() else 'X')
    literal = []
    for base in ('org.freedesktop.DBus', 'org.freedesktop.DBus.Properties', 'org.freedesktop.DBus.Error.Failed',
                 'org.freedesktop.DBus.ObjectManager', '/org/freedesktop/DBus', ':1.42', 'com.example.Service1'):
        literal.append(base)
        for tail in ('.', '..x', '.1a', '.a-b', '.\u00e9', '. x', '/', '.x' * 120, 'x' * 236):
            literal.append(base + tail)
        for pos in (0, 3, len(base) // 2, len(base) - 1):
            for ins in ('.', '-', ':', '/', ' ', '\u00e9', '7', '..'):
                literal.append(base[:pos] + ins + base[pos:])
    for j, text in enumerate(literal):
        got = direct(text) if j % 3 else via_ctors(text, j % 4)
        traces.append([({'n': 'Init'}, {'s': tuple(class_of(ch) for ch in text), 'v': got})])
        texts.append(text)
    chk.notes['literal_names'] = len(literal)
    cc = 'CONSTANTS\n MaxLen = 1\n Classes = {"L", "D", "U", ".", "-", ":", "/", "X", "O"}\n'
    rej, stt = core.validate_traces('Validators', OBS, traces, {}, cfg_consts=cc, initpred='TraceInit', nproc=8)
    chk.states += stt['states']
    chk.transitions += stt['transitions']
    chk.traces += len(traces) - len(rej)
    for ti, _, _ in rej[:5]:
        chk.violation('random string %r: verdicts %r rejected by the grammar' % (texts[ti][:40], traces[ti][0][1]['v']),
                      dict(kind='code->spec', module='c18', text=texts[ti], classes=list(traces[ti][0][1]['s']),
                           implementation=traces[ti][0][1]['v']))
    # canary
    st = dict(traces[0][0][1])
    st['v'] = dict(st['v'], member=not st['v']['member'])
    rej, _ = core.validate_traces('Validators', OBS, [[({'n': 'Init'}, st)]], {}, cfg_consts=cc, initpred='TraceInit', nproc=1)
    chk.canary = {'what': 'one recorded verdict inverted', 'rejected': bool(rej)}
    chk.assumptions = ['validators depend on a character only through its class (letter, digit, _, ., -, :, /, non-ASCII, '
                       'other ASCII); concrete characters are rotated per string',
                       'the reserved path /org/freedesktop/DBus/Local is outside the grammar (checked in C03)']
    return chk.finish(
        rule='every string of length <= %d over 9 character classes plus the 253..258 length boundary is a reachable '
             'state of Validators.tla (grammar = automaton checked by TLC); each is instantiated and given to the five '
             'validators and (short ones) to every message-constructor slot; random long strings are judged by TLC' % ml,
        exhaustive=True)
