"""CLI: ./check C08 [--tier quick|thorough] [--replay PATH]

exit 0: property held on everything explored (KNOWN-FINDING lines possible)
exit 1: VIOLATION property=<id> replay=<path>
exit 2: the machinery itself failed
"""
import argparse
import importlib
import os
import sys
import traceback


def watchdog(pid, limit_s=180, overall_s=None):
    """A daemon thread.  If ONE call into the implementation (the outermost frame whose code lives in the txdbus package
    stays the same frame object) is still running after limit_s seconds, the implementation does not return: that is
    reported as a violation (with the stack) instead of hanging the check.  Harness calls into the implementation take
    micro- to milliseconds; the longest legitimate one (a 128 MiB message) a few seconds.  If the check as a whole
    exceeds overall_s, it is a machinery failure (exit 2)."""
    import threading
    import time
    import traceback as tb
    main_id = threading.main_thread().ident
    t0 = time.time()

    def outermost_impl_frame():
        f = sys._current_frames().get(main_id)
        found = None
        while f is not None:
            fn = f.f_code.co_filename.replace(os.sep, '/')
            if '/txdbus/' in fn and '/harness/' not in fn:
                found = f
            f = f.f_back
        return found

    def loop():
        held, since = None, None
        while True:
            time.sleep(5)
            f = outermost_impl_frame()
            if f is not None and f is held:
                if time.time() - since >= limit_s:
                    stack = ''.join(tb.format_stack(sys._current_frames().get(main_id))[-12:])
                    from . import core
                    chk = core.LAST_CHECK
                    try:
                        if chk is not None:
                            chk.violation('a call into the implementation did not return within %d s (%s)' % (
                                limit_s, f.f_code.co_name), dict(kind='non-termination', stack=stack))
                            chk.states = max(chk.states, 1)
                            chk.transitions = max(chk.transitions, 1)
                            chk.finish(rule='aborted: the implementation did not return')
                        else:
                            print('VIOLATION property=%s replay=-' % pid)
                    finally:
                        sys.stdout.flush()
                        os._exit(1)
            else:
                held, since = f, time.time()
            if overall_s and time.time() - t0 > overall_s:
                sys.stderr.write(''.join(tb.format_stack(sys._current_frames().get(main_id))[-12:]))
                print('MACHINERY-FAILURE property=%s (no result after %d s)' % (pid, overall_s))
                sys.stdout.flush()
                os._exit(2)
    th = threading.Thread(target=loop, daemon=True)
    th.start()


def main():
    ap = argparse.ArgumentParser()
    ap.add_argument('pid')
    ap.add_argument('--tier', default=os.environ.get('VERIF_TIER', 'quick'), choices=['quick', 'thorough'])
    ap.add_argument('--replay')
    a = ap.parse_args()
    seed = int(os.environ.get('VERIF_SEED', '0') or 0)
    pid = a.pid.upper()
    if pid == 'C05' and not a.replay and os.environ.get('TXV_C05_CHILD') != '1':
        # C05 feeds hostile bytes to the implementation in this very process: a decoder that brings the interpreter
        # down (a signal, not an exception) must end as a verdict too.  The check runs in a child; the parent only waits.
        sys.stdout.flush()
        cpid = os.fork()
        if cpid:
            _, status = os.waitpid(cpid, 0)
            if os.WIFSIGNALED(status):
                from . import core
                chk = core.Check(pid, a.tier, seed)
                chk.states = chk.transitions = 1
                chk.violation('decoding hostile input killed the interpreter (signal %d)' % os.WTERMSIG(status),
                              dict(kind='crash', module='c05', signal=os.WTERMSIG(status)))
                rc = chk.finish(rule='aborted: the process decoding the inputs died')
                sys.stdout.flush()
                os._exit(rc)
            os._exit(os.WEXITSTATUS(status))
        os.environ['TXV_C05_CHILD'] = '1'
    if not a.replay:
        watchdog(pid, overall_s=3 * 3600 if a.tier == 'quick' else 12 * 3600)
    try:
        mod = importlib.import_module('harness.' + pid.lower())
        if a.replay:
            rc = mod.replay_file(a.replay)
        else:
            rc = mod.run(a.tier, seed)
    except Exception:
        traceback.print_exc()
        from . import core
        chk = core.LAST_CHECK
        if chk is not None and chk.violations:
            # the implementation already diverged; a later stage tripping over the broken tree does not
            # turn the verdict into a machinery failure
            try:
                chk.states = max(chk.states, 1)
                chk.transitions = max(chk.transitions, 1)
                rc = chk.finish(rule='aborted after %d violation(s): a later stage raised' % len(chk.violations))
            except Exception:
                rc = 1
        else:
            print('MACHINERY-FAILURE property=%s' % pid)
            rc = 2
    sys.stdout.flush()
    os._exit(rc)


if __name__ == '__main__':
    main()
