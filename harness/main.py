"""CLI: ./check C08 [--tier quick|thorough] [--replay PATH]

exit 0: property held on everything explored (KNOWN-FINDING lines possible)
exit 1: VIOLATION property=<id> replay=<path>
exit 2: the machinery itself failed
"""
import argparse
import importlib
import os
import sys
import traceback


def main():
    ap = argparse.ArgumentParser()
    ap.add_argument('pid')
    ap.add_argument('--tier', default=os.environ.get('VERIF_TIER', 'quick'), choices=['quick', 'thorough'])
    ap.add_argument('--replay')
    a = ap.parse_args()
    seed = int(os.environ.get('VERIF_SEED', '0') or 0)
    pid = a.pid.upper()
    try:
        mod = importlib.import_module('harness.' + pid.lower())
        if a.replay:
            rc = mod.replay_file(a.replay)
        else:
            rc = mod.run(a.tier, seed)
    except Exception:
        traceback.print_exc()
        from . import core
        chk = core.LAST_CHECK
        if chk is not None and chk.violations:
            # the implementation already diverged; a later stage tripping over the broken tree does not
            # turn the verdict into a machinery failure
            try:
                chk.states = max(chk.states, 1)
                chk.transitions = max(chk.transitions, 1)
                rc = chk.finish(rule='aborted after %d violation(s): a later stage raised' % len(chk.violations))
            except Exception:
                rc = 1
        else:
            print('MACHINERY-FAILURE property=%s' % pid)
            rc = 2
    sys.stdout.flush()
    os._exit(rc)


if __name__ == '__main__':
    main()
