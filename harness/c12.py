"""C12 - a signal reaches exactly the callbacks whose match rule it satisfies.
Spec: spec/Router.tla (Matches written from the DBus specification; generator over rules x message
universe; add/remove/route history machine)."""
import itertools
import random

from . import core, tlc, fakes, refwire
from .tlaval import to_tla, norm

import txdbus.bus
from txdbus import router, message, objects, interface

class Cancelled(BaseException):
    """what asyncio.CancelledError is since Python 3.8: an exception that is not an Exception"""


ACTIONS = {'Add': ('r',), 'Del': ('id',), 'Route': ('i', 'raising'), 'RouteRemoving': ('i', 'x'), 'RouteAdding': ('i', 'r'), 'AddRejected': ('r',)}
OBS = ['invoked']
NONE = '-'
NONES = ('NONE',)      # absent key whose values are character sequences (the empty sequence is the empty string)


def chars(s):
    return tuple(s) if s is not None else NONES


def universe():
    """message universe: (model record, real message object)"""
    out = []
    bodies = [None, [('str', '')], [('str', 'x')], [('str', 'y')], [('int', 5)], [('str', '/aa/bb/')], [('str', '/aa/')],
              [('str', '/aa/bb/cc')], [('str', '/aab')], [('str', '/aa/bb')], [('str', 'x'), ('str', 'z')], [('str', '/aa')]]
    serial = [100]

    def mk(mtype, iface, member, path, dest, body):
        serial[0] += 1
        code = {'method_call': 1, 'method_return': 2, 'error': 3, 'signal': 4}[mtype]
        fields = []
        if path is not None:
            fields.append(('path', path))
        if iface is not None:
            fields.append(('interface', iface))
        if member is not None:
            fields.append(('member', member))
        if code == 2:
            fields.append(('reply_serial', 7))
        if dest is not None:
            fields.append(('destination', dest))
        sig = ''.join('s' if k == 'str' else 'i' for k, v in (body or []))
        raw = refwire.msg(code, serial[0], fields, sig or None, [v for k, v in (body or [])])
        real = message.parseMessage(raw, [])
        real.rawMessage = raw
        rec = {'type': mtype, 'iface': iface or NONE, 'member': member or NONE, 'path': chars(path),
               'dest': dest or NONE,
               'body': tuple({'k': k, 'v': chars(v) if k == 'str' else v} for k, v in (body or []))}
        out.append((rec, real))
    for mtype in ('signal', 'method_call'):
        for iface in ('I1.x', 'I2.x'):
            for member in ('M1', 'M2'):
                for path in ('/a/b', '/a/bc', '/a/b/c', '/'):
                    for dest in (None, 'D.x'):
                        for body in bodies:
                            mk(mtype, iface, member, path, dest, body)
    for dest in (None, 'D.x'):
        for body in bodies:
            mk('method_return', None, None, None, dest, body)
    return out


def shifted(m):
    """the same message with a dictionary as additional first argument"""
    fields = [(n, getattr(m, n)) for n in ('path', 'interface', 'member', 'reply_serial', 'destination') if getattr(m, n, None) is not None]
    raw = refwire.msg(m._messageType, m.serial, fields, 'a{ss}' + (m.signature or ''), [[('k', 'v')]] + list(m.body or []))
    return message.parseMessage(raw, [])


# names used by the model -> concrete DBus names
CONC = {'I1': 'I1.x', 'I2': 'I2.x', 'D': 'D.x'}


def mc_module(name, msgs, pool):
    def lit(rec):
        return to_tla(rec)
    return ('---- MODULE RouterData ----\nMsgList == <<\n%s\n>>\nRulePool == {%s}\n====\n' % (
        ',\n'.join(lit(m) for m in msgs), ', '.join(lit(r) for r in pool)))


def model_msg(rec):
    """message record with the model's names (I1.x -> I1 ...)"""
    inv = {v: k for k, v in CONC.items()}
    r = dict(rec)
    r['iface'] = inv.get(r['iface'], r['iface'])
    r['dest'] = inv.get(r['dest'], r['dest'])
    return r


def rule_kwargs(r):
    kw = {}
    if r['type'] != NONE:
        kw['mtype'] = r['type']
    if r['iface'] != NONE:
        kw['interface'] = CONC.get(r['iface'], r['iface'])
    if r['member'] != NONE:
        kw['member'] = r['member']
    if r['path'] != NONES:
        kw['path'] = ''.join(r['path'])
    if r['ns'] != NONES:
        kw['path_namespace'] = ''.join(r['ns'])
    if r['dest'] != NONE:
        kw['destination'] = CONC.get(r['dest'], r['dest'])
    return kw


def rule_args(r):
    a = [(0, ''.join(r['arg0']))] if r['arg0'] != NONES else None
    p = [(0, ''.join(r['arg0path']))] if r['arg0path'] != NONES else None
    return a, p


def parse_rule_text(text):
    """independent parse of a match-rule string into a set of (key, value)"""
    out = set()
    for item in text.split(','):
        if not item:
            continue
        k, _, v = item.partition('=')
        if len(v) >= 2 and v[0] == "'" and v[-1] == "'":
            v = v[1:-1]
        out.add((k, v))
    return out


def expected_text(tla_text):
    inv = CONC
    out = set()
    for k, v in tla_text:
        if isinstance(v, tuple):
            v = ''.join(v)
        out.add((k, inv.get(v, v)))
    return out


class HistDriver:
    """real client connection; callbacks registered through conn.addMatch"""

    def __init__(self, msgs, pool_by_key, shared=False):
        self.shared = shared      # one callable registered under every rule: only the number of calls is observable
        self.calls = 0
        fakes.install_clock()
        self.conn, self.t, _ = fakes.ready_client()
        self.msgs = msgs
        self.ids = {}        # model id -> real id
        self.counts = {}
        self.raising = False
        self.self_remove = None
        self.n = 0
        self.last = {}

    def make_cb(self, mid):
        def cb(m, mid=mid):
            self.last[mid] = self.last.get(mid, 0) + 1
            if getattr(self, 'add_on_hit', None) is not None:
                # subscribes to something further from inside the dispatch
                r2, self.add_on_hit = self.add_on_hit, None
                mid2 = self.n
                self.n += 1
                a2, p2 = rule_args(r2)
                d2 = self.conn.addMatch(self.shared_cb if self.shared else self.make_cb(mid2), arg=a2, arg_path=p2, **rule_kwargs(r2))
                self.added_inside = (mid2, d2)
            if self.self_remove == mid:
                # a one-shot subscriber: drops its own rule from inside the dispatch
                self.conn.router.delMatch(self.ids[mid])
                self.conn.match_rules.pop(self.ids[mid], None)
                del self.ids[mid]
            if self.raising:
                # every other callback fails the way a cancelled coroutine does: not an Exception
                raise (Cancelled if mid % 2 else RuntimeError)('callback %d raises' % mid)
        return cb

    def _reply(self):
        calls = fakes.parse_all(self.t.take())
        assert len(calls) == 1, calls
        r = message.MethodReturnMessage(calls[0].serial, destination=':1.7')
        self.conn.dataReceived(r.rawMessage)
        return calls[0]

    def apply(self, name, args):
        self.last = {}
        self.calls = 0
        if name == 'Add':
            r = args[0]
            mid = self.n
            self.n += 1

            cb = self.make_cb(mid)
            a, p = rule_args(r)
            d = self.conn.addMatch(self.shared_cb if self.shared else cb, arg=a, arg_path=p, **rule_kwargs(r))
            got = []
            d.addCallback(got.append)
            call = self._reply()
            assert call.member == 'AddMatch'
            self.ids[mid] = got[0]
        elif name == 'AddRejected':
            r = args[0]
            a, p = rule_args(r)
            ghost = self.n + 500          # a callback that must never run

            def never(m, ghost=ghost):
                self.last[ghost] = self.last.get(ghost, 0) + 1
            d = self.conn.addMatch(self.shared_cb if self.shared else never, arg=a, arg_path=p, **rule_kwargs(r))
            res = []
            d.addBoth(res.append)
            calls = fakes.parse_all(self.t.take())
            assert len(calls) == 1 and calls[0].member == 'AddMatch', calls
            self.conn.dataReceived(message.ErrorMessage('org.freedesktop.DBus.Error.MatchRuleInvalid', calls[0].serial,
                                                        destination=':1.7', signature='s', body=['no']).rawMessage)
            assert res and not isinstance(res[0], int), res
        elif name == 'Del':
            mid = args[0]
            d = self.conn.delMatch(self.ids[mid])
            call = self._reply()
            assert call.member == 'RemoveMatch'
            del self.ids[mid]
        elif name == 'RouteAdding':
            i, r2 = args
            self.add_on_hit = r2
            self.added_inside = None
            try:
                self.conn.dataReceived(self.raw[i - 1])
            finally:
                self.add_on_hit = None
            if self.added_inside:
                mid2, d2 = self.added_inside
                got = []
                d2.addCallback(got.append)
                call = self._reply()
                assert call.member == 'AddMatch'
                self.ids[mid2] = got[0]
        elif name == 'RouteRemoving':
            i, x = args
            self.self_remove = x
            try:
                self.conn.dataReceived(self.raw[i - 1])
            finally:
                self.self_remove = None
        elif name == 'Route':
            i, raising = args
            self.raising = raising == 'all'
            try:
                self.conn.dataReceived(self.msgs[i - 1][1].rawMessage if False else self.raw[i - 1])
            except Cancelled as ex:
                raise RuntimeError('a callback exception escaped the routing: %r' % (ex,))
            finally:
                self.raising = False
        else:
            raise ValueError(name)

    def shared_cb(self, m):
        self.calls += 1
        if self.raising:
            raise (Cancelled if self.calls % 2 else RuntimeError)('shared callback raises')

    def project(self):
        if self.shared:
            return {'ninvoked': self.calls}
        inv = set()
        for mid, c in self.last.items():
            inv.add(mid if c == 1 else 1000 + mid)        # invoked more than once -> out of range
        return {'invoked': frozenset(inv)}


def run(tier, seed):
    chk = core.Check('C12', tier, seed)
    rng = random.Random(seed)
    thorough = tier == 'thorough'
    uni = universe()
    msgs = [model_msg(r) for r, _ in uni]
    reals = [m for _, m in uni]
    reals_shifted = [shifted(m) for m in reals]
    # ---- generator: every rule of the universe against every message
    name = 'MC_Router_gen'
    cfg = ('SPECIFICATION SpecGen\nCONSTANTS\n MaxRules = 1\n'
           'INVARIANT EmptyMatchesAll\nINVARIANT Monotone\nCHECK_DEADLOCK FALSE\n')
    res, states = tlc.dump_states('Router', name + '.cfg', extra={'RouterData.tla': mc_module(name, msgs, []), name + '.cfg': cfg},
                                  timeout=240)
    chk.tlc_stats(res, 'Router generator: %d rules x %d messages' % (len(states), len(msgs)))
    if not res.ok:
        chk.violation('model: Router(gen) %s %s' % res.violation, dict(kind='TLC', trace=repr(res.trace[-1:])))
    chk.notes['rules'] = len(states)
    chk.notes['messages'] = len(msgs)
    bus = txdbus.bus.Bus()

    class P:
        uniqueName = ':1.1'

        def __init__(self):
            self.got = []
            self.matchRules = set()

        def sendMessage(self, m):
            self.got.append(m)
    nbad = 0
    conn, ct, _ = fakes.ready_client()
    nrule = [0]
    for si, st in enumerate(states):
        r = st['rule']
        want = set(st['matched'])
        kw = rule_kwargs(r)
        a, p = rule_args(r)
        # (a) the router itself
        ro = router.MessageRouter()
        hits = []
        ro.addMatch(hits.append, args=a, arg_paths=p, **kw)
        got = set()
        for i, m in enumerate(reals, 1):
            del hits[:]
            ro.routeMessage(m)
            if hits:
                got.add(i if len(hits) == 1 else -i)
        results = [('MessageRouter', got)]
        if a or p:
            # the same constraint on argument 1 of the same messages with a dictionary put in front: argument numbers count
            # values (complete types), not signature characters
            ro2 = router.MessageRouter()
            hits2 = []
            ro2.addMatch(hits2.append, args=[(1, v) for _, v in a] if a else None, arg_paths=[(1, v) for _, v in p] if p else None, **kw)
            got2 = set()
            for i, m in enumerate(reals_shifted, 1):
                del hits2[:]
                ro2.routeMessage(m)
                if hits2:
                    got2.add(i if len(hits2) == 1 else -i)
            results.append(('MessageRouter, the constraint moved to argument 1 behind a dictionary', got2))
        # (b) the rule text the client sends, and (c) what the bus makes of that text
        chits = []
        # every other rule also names the emitter by its well-known name: that goes into the text for the daemon (which
        # knows who owns the name); locally a signal is stamped with the emitter's unique name and the listed
        # constraints decide
        nrule[0] += 1
        skw = {'sender': 'org.ex.Emitter'} if nrule[0] % 2 else {}
        d = conn.addMatch(chits.append, arg=a, arg_path=p, **dict(kw, **skw))
        calls = fakes.parse_all(ct.take())
        text = calls[0].body[0] if calls and calls[0].member == 'AddMatch' else None
        rid = []
        d.addCallback(rid.append)
        conn.dataReceived(message.MethodReturnMessage(calls[0].serial, destination=':1.7').rawMessage)
        text_ok = text is not None and parse_rule_text(text) == expected_text(st['text']) | {(k, v) for k, v in skw.items()}
        got_c = set()
        for i, m in enumerate(reals, 1):
            if m._messageType != 4:
                continue
            del chits[:]
            m.sender = ':1.42'           # as stamped by the bus
            conn.signalReceived(m)
            if chits:
                got_c.add(i if len(chits) == 1 else -i)
        results.append(('client.addMatch', got_c | {i for i in want if reals[i - 1]._messageType != 4}))
        if rid:
            conn.router.delMatch(rid[0])
            conn.match_rules.pop(rid[0], None)
        if text is not None:
            pr = P()
            bus.clients[':1.1'] = pr
            try:
                bus.dbus_AddMatch(text, dbusCaller=':1.1')
                got_b = set()
                for i, m in enumerate(reals, 1):
                    del pr.got[:]
                    bus.router.routeMessage(m)
                    if pr.got:
                        got_b.add(i if len(pr.got) == 1 else -i)
                results.append(('Bus.dbus_AddMatch(rule text)', got_b))
                bus.dbus_RemoveMatch(text, dbusCaller=':1.1')
            except Exception as ex:
                results.append(('Bus.dbus_AddMatch raised %s' % type(ex).__name__, {-1}))
        chk.traces += 1
        bad = [(how, g) for how, g in results if g != want]
        if bad or not text_ok:
            nbad += 1
            if nbad <= 5:
                if not text_ok:
                    key = 'rule text %r does not express %r' % (text, sorted(expected_text(st['text'])))
                else:
                    how, g = bad[0]
                    extra = sorted(g - want)[:3]
                    missing = sorted(want - g)[:3]
                    key = '%s: rule %r: wrongly delivered %r, wrongly withheld %r' % (
                        how, {k: v for k, v in rule_kwargs(r).items()} | {'arg0': a, 'arg0path': p},
                        [msgs[abs(i) - 1] for i in extra][:1], [msgs[abs(i) - 1] for i in missing][:1])
                chk.violation(key, dict(kind='spec->code', module='c12', rule=repr(r), text=text))
        if si % 300 == 7:
            chk.sample({'rule': rule_kwargs(r), 'arg0': a, 'arg0path': p, 'text': text, 'matches': len(want)})
    # ---- history machine on a real client connection
    pool = [dict(type=NONE, iface='I1', member=NONE, path=NONES, ns=NONES, dest=NONE, arg0=NONES, arg0path=NONES),
            dict(type='signal', iface=NONE, member=NONE, path=NONES, ns=chars('/a/b'), dest=NONE, arg0=NONES, arg0path=NONES),
            dict(type=NONE, iface=NONE, member='M1', path=NONES, ns=NONES, dest=NONE, arg0=NONES, arg0path=chars('/aa/')),
            dict(type=NONE, iface=NONE, member=NONE, path=chars('/a/b'), ns=NONES, dest=NONE, arg0=chars('x'), arg0path=NONES)]
    sig_idx = [i for i, m in enumerate(msgs) if m['type'] == 'signal']
    pick = rng.sample(sig_idx, 5) + [i for i in sig_idx if msgs[i]['path'] == chars('/a/bc')][:1]
    # ... and two signals that differ only in the destination: what is decided for one message says nothing about the
    # next (a client connection hands only signals to its router, so the history machine routes signals)
    base = msgs[pick[0]]
    for key, other in (('dest', 'D' if base['dest'] == NONE else NONE),):
        twin = [i for i, m in enumerate(msgs) if m[key] == other and all(m[k] == base[k] for k in m if k != key)]
        pick += twin[:1]
    hmsgs = [msgs[i] for i in pick]
    hraw = [reals[i].rawMessage for i in pick]
    name = 'MC_Router_hist'
    cfg = ('SPECIFICATION SpecHist\nCONSTANTS\n MaxRules = %d\n'
           'INVARIANT FreshIds\nPROPERTY RemovedSilent\nPROPERTY Exact\nCHECK_DEADLOCK FALSE\n' % (3 if thorough else 2))
    res, g = tlc.dump_graph('Router', name + '.cfg', extra={'RouterData.tla': mc_module(name, hmsgs, pool), name + '.cfg': cfg},
                            timeout=900)
    chk.tlc_stats(res, 'Router history machine')
    if not res.ok:
        chk.violation('model: Router(hist) %s %s' % res.violation, dict(kind='TLC', trace=repr(res.trace[-3:])))
    chk.notes['hist_graph'] = [len(g.nodes), g.nedges]

    def mk(acts):
        d = HistDriver(None, None)
        d.raw = hraw
        return d
    paths = list(core.edge_cover_paths(g))
    if len(paths) > (60000 if thorough else 3000):
        paths = rng.sample(paths, 60000 if thorough else 3000)
    core.replay_paths(chk, g, paths, mk, 'hist-edges', 'c12', {})
    core.replay_paths(chk, g, list(core.random_walks(g, 3000 if thorough else 500, 10, rng)), mk, 'hist-walks', 'c12', {})

    # the same callable (a bound method: two registrations compare equal) under every rule: it runs once per matching rule
    def mk_shared(acts):
        d = HistDriver(None, None, shared=True)
        d.raw = hraw
        return d
    sp = [p for p in paths if not any(lab[0] in ('RouteRemoving', 'RouteAdding') for lab in p.labs)]
    core.replay_paths(chk, g, sp[:1500 if not thorough else 20000], mk_shared, 'hist-shared-callable', 'c12', {'shared': True},
                      state_map=lambda st: {'ninvoked': len(st['invoked'])})
    # ---- code -> spec: random rules over a larger value space (recorded match sets judged by TLC)
    traces = []
    descr = []
    vals = {'type': [NONE, 'signal', 'method_call', 'method_return'], 'iface': [NONE, 'I1', 'I2'], 'member': [NONE, 'M1', 'M2'],
            'path': [NONES, chars('/a/b'), chars('/a/bc'), chars('/')], 'ns': [NONES, chars('/'), chars('/a'), chars('/a/b'), chars('/a/b/c')],
            'dest': [NONE, 'D'], 'arg0': [NONES, chars('x'), chars('/aa/'), ()],
            'arg0path': [NONES, chars('/aa/'), chars('/aa/bb/'), chars('/aa/bb'), chars('/aa'), chars('/'), chars('/aa/bb/cc')]}

    for _ in range(10000 if thorough else 300):
        r = {k: rng.choice(v) if rng.random() < 0.45 else v[0] for k, v in vals.items()}
        ro = router.MessageRouter()
        hits = []
        a, p = rule_args(r)
        ro.addMatch(hits.append, args=a, arg_paths=p, **rule_kwargs(r))
        got = set()
        for i, m in enumerate(reals, 1):
            del hits[:]
            ro.routeMessage(m)
            if hits:
                got.add(i if len(hits) == 1 else 100000 + i)
        kwt = rule_kwargs(r)
        text = set()
        st = {'mode': 'gen', 'rule': r, 'matched': frozenset(got), 'rules': (), 'nextId': 0, 'invoked': frozenset()}
        traces.append([({'n': 'Init'}, st)])
        descr.append(r)
    name = 'MC_Router_gen'
    cc = 'CONSTANTS\n MaxRules = 1\n'
    rej, stt = core.validate_traces('Router', ['mode', 'rule', 'matched', 'rules', 'nextId', 'invoked'], traces, {}, cfg_consts=cc,
                                    initpred='matched = MatchSet(rule) /\\ text = {}', nproc=8,
                                    extra={'RouterData.tla': mc_module(name, msgs, [])})
    chk.states += stt['states']
    chk.transitions += stt['transitions']
    chk.traces += len(traces) - len(rej)
    for ti, _, _ in rej[:5]:
        chk.violation('random rule %r: recorded match set rejected by Router.tla' % (descr[ti],),
                      dict(kind='code->spec', module='c12', rule=repr(descr[ti])))
    # ---- values that need care in the rule TEXT: apostrophes, commas, equal signs (the grammar of match rules: a value
    # stands in single quotes, an apostrophe inside it is written '\\''); the text must say what the local rule says, and
    # the built-in bus must read it back to the same constraint.  Exact-argument semantics as in Router.tla, instantiated
    # with these strings
    def spec_parse(text):
        out, i, n = set(), 0, len(text)
        while i < n:
            if text[i] == ',':
                i += 1
                continue
            eq = text.index('=', i)
            key, i, val = text[i:eq], eq + 1, []
            while i < n and text[i] != ',':
                if text[i] == "'":
                    j = text.index("'", i + 1)
                    val.append(text[i + 1:j])
                    i = j + 1
                elif text[i] == '\\' and text[i + 1:i + 2] == "'":
                    val.append("'")
                    i += 2
                else:
                    val.append(text[i])
                    i += 1
            out.add((key, ''.join(val)))
        return out
    awkward = ["it's", "a,b", "a=b", "x',member='Other", "''", "q,type='signal'"]
    conn_a, ct_a, _ = fakes.ready_client()
    bus_a = txdbus.bus.Bus()

    class Pa:
        uniqueName = ':1.1'

        def __init__(self):
            self.got = []
            self.matchRules = set()

        def sendMessage(self, m):
            self.got.append(m)
    for val in awkward:
        hits_a = []
        d = conn_a.addMatch(hits_a.append, mtype='signal', interface='I1.x', arg=[(0, val)])
        calls = fakes.parse_all(ct_a.take())
        text = calls[0].body[0] if calls and calls[0].member == 'AddMatch' else ''
        conn_a.dataReceived(message.MethodReturnMessage(calls[0].serial, destination=':1.7').rawMessage)
        want_text = {('type', 'signal'), ('interface', 'I1.x'), ('arg0', val)}
        try:
            got_text = spec_parse(text)
        except ValueError:
            got_text = {('unparsable', text)}
        chk.traces += 1
        if got_text != want_text:
            chk.violation('client.addMatch with the argument value %r: the rule text %r says %r' % (val, text, sorted(got_text)),
                          dict(kind='rule text', module='c12', value=val, text=text))
            continue
        # what the built-in bus makes of that (correct) text: only the signal whose argument 0 IS the value
        pa = Pa()
        bus_a.clients[':1.1'] = pa
        try:
            bus_a.dbus_AddMatch(text, dbusCaller=':1.1')
            delivered = []
            for other in awkward + ['plain']:
                del pa.got[:]
                sgn = message.parseMessage(message.SignalMessage('/p', 'M1', 'I1.x', signature='s', body=[other]).rawMessage, [])
                bus_a.router.routeMessage(sgn)
                if pa.got:
                    delivered.append(other)
            bus_a.dbus_RemoveMatch(text, dbusCaller=':1.1')
        except Exception as ex:
            delivered = ['raised %s' % type(ex).__name__]
        if delivered != [val]:
            chk.violation('Bus.dbus_AddMatch(%r): signals with argument 0 in %r are delivered, the rule asks for %r' % (text, delivered, val),
                          dict(kind='rule text (bus)', module='c12', value=val, text=text, delivered=delivered))
    # ---- proxy subscription: arguments are passed only when the signature is the declared one
    ptr = []
    for decl, actual in itertools.product(['s', 'i', '', 'ss'], repeat=2):
        fakes.install_clock()
        c2, t2, _ = fakes.ready_client()
        iface = interface.DBusInterface('org.ex.PS', interface.Signal('Sig', decl), noRegister=True)
        # the object has a second interface with a signal of the same name (another signature), subscribed to first
        iface2 = interface.DBusInterface('org.ex.PS2', interface.Signal('Sig', 'u'), noRegister=True)
        ro = objects.RemoteDBusObject(c2.objHandler, 'org.ex.Srv', '/p', [iface2, iface])
        hits, others = [], []
        ro.notifyOnSignal('Sig', lambda *a: others.append(a), interface='org.ex.PS2')
        calls = fakes.parse_all(t2.take())
        c2.dataReceived(message.MethodReturnMessage(calls[0].serial, destination=':1.7').rawMessage)
        d = ro.notifyOnSignal('Sig', lambda *a: hits.append(a), interface='org.ex.PS')
        calls = fakes.parse_all(t2.take())
        c2.dataReceived(message.MethodReturnMessage(calls[0].serial, destination=':1.7').rawMessage)
        body = {'s': ['v'], 'i': [5], '': None, 'ss': ['a', 'b']}[actual]
        sgn = message.SignalMessage('/p', 'Sig', 'org.ex.PS', signature=actual or None, body=body)
        c2.dataReceived(sgn.rawMessage)
        args_ok = all(list(h) == (body or []) for h in hits) and not others
        ptr.append([({'n': 'Init'}, {'mode': 'gen', 'rule': (tuple(decl), tuple(actual)),
                                     'matched': frozenset({1} if len(hits) == 1 and args_ok else ({} if not hits else {2})),
                                     'rules': (), 'nextId': 0, 'invoked': frozenset(), 'text': frozenset()})])
    rej, stt = core.validate_traces('Router', ['mode', 'rule', 'matched', 'rules', 'nextId', 'invoked', 'text'], ptr, {}, cfg_consts=cc,
                                    initpred='TraceProxy', nproc=1, extra={'RouterData.tla': mc_module(name, msgs, [])})
    chk.states += stt['states']
    chk.transitions += stt['transitions']
    for ti, _, _ in rej[:3]:
        chk.violation('proxy subscription: declared/actual %r: %r' % (ptr[ti][0][1]['rule'], ptr[ti][0][1]['matched']),
                      dict(kind='code->spec', module='c12'))
    # ---- proxy subscriptions end to end over the built-in bus (spec/Signals.tla)
    from . import signals
    signals.stage(chk, rng, thorough)
    # ---- canary
    st = dict(traces[0][0][1])
    st['matched'] = frozenset(set(st['matched']) ^ {3})
    rej, _ = core.validate_traces('Router', ['mode', 'rule', 'matched', 'rules', 'nextId', 'invoked'], [[({'n': 'Init'}, st)]], {},
                                  cfg_consts=cc, initpred='matched = MatchSet(rule) /\\ text = {}', nproc=1,
                                  extra={'RouterData.tla': mc_module(name, msgs, [])})
    chk.canary = {'what': 'one message toggled in a recorded match set', 'rejected': bool(rej)}
    chk.assumptions = ['arg0namespace is outside the property and outside the generated rule space; sender= is not among the constraints '
                       'the property lists: every other client-level rule names a well-known sender, which must reach the rule text '
                       'and must not decide local delivery (signals carry the unique name)',
                       'only argument index 0 is constrained in the model (the implementation treats every index alike)']
    return chk.finish(
        rule='TLC computes, for each of the 1440 rules of the universe, the exact set of the %d universe messages it matches '
             '(and the constraints its text must express); the real MessageRouter, the client addMatch path (rule text '
             'checked) and the bus parser + router are run on the same universe; an add/remove/route history machine with '
             'raising callbacks is explored exhaustively and replayed on a real client; random rules over a larger value '
             'space are judged by TLC; proxy subscriptions for all declared/actual signature pairs' % len(msgs),
        exhaustive=True)
