"""C09 - connecting always concludes; a lost connection fails all pending work once.
Spec: spec/ConnLife.tla.  Driver: the real txdbus.client.connect() on a MemoryReactorClock whose
connection attempts are completed or failed by the schedule."""
import gc
import random

from twisted.internet.testing import MemoryReactorClock
from twisted.internet.error import ConnectionRefusedError
from twisted.python import failure

from . import core, tlc, fakes
from .tlaval import to_tla

import txdbus.client
from txdbus import message, interface, introspection

ACTIONS = {'EpFail': ('why',), 'EpOk': (), 'AuthOk': (), 'AuthRefused': (), 'HelloOk': (), 'HelloErr': (), 'Close': (), 'Quiet': (),
           'IssueCall': ('k', 't'), 'ReplyCall': ('k',), 'ExpireCall': ('k',), 'CancelCall': ('k',), 'Register': ('x', 'w'), 'DropProxy': ('x',), 'Unregister': ('x',), 'Reregister': ('x',), 'CloseRetry': ('R',), 'CloseCancelling': ('x',)}
OBS = ['tried', 'fired', 'nfired', 'call', 'timers', 'ran', 'late']
KINDS = ['unix:path=/tmp/verif-sock-%d', 'unix:abstract=verif%d', 'tcp:host=h%d.example,port=%d',
         'nonce-tcp:host=n%d.example,port=%d,noncefile=/x']


def expected_destination(i):
    k = i % len(KINDS)
    if k == 0:
        return ('unix', '/tmp/verif-sock-%d' % i)
    if k == 1:
        return ('unix', '\0verif%d' % i)
    if k == 2:
        return ('tcp', 'h%d.example' % i, 4000 + i)
    return ('tcp', 'n%d.example' % i, 4000 + i)
XML = ('<!DOCTYPE node PUBLIC "-//freedesktop//DTD D-BUS Object Introspection 1.0//EN"\n'
       '"http://www.freedesktop.org/standards/dbus/1.0/introspect.dtd">\n<node name="/o">\n'
       '  <interface name="org.verif.Remote%d"><method name="Ping"></method></interface>\n</node>')


def address(eps, junk):
    parts = []
    for i in range(len(eps)):
        k = KINDS[i % len(KINDS)]
        parts.append(k % ((i, 4000 + i) if '%d' in k and k.count('%d') == 2 else (i,)))
        if junk and i == 0:
            parts.append('launchd:env=DBUS_LAUNCHD_SESSION_BUS_SOCKET')
    return ';'.join(parts)


class ConnDriver:
    def __init__(self, eps, calls, cbs, junk=False):
        self.eps = list(eps)
        self.r = MemoryReactorClock()
        txdbus.client.reactor = self.r
        self.calls = list(calls)
        self.cbs = list(cbs)
        self.fired = []
        self.callres = {k: [] for k in self.calls}
        self.ran = {x: 0 for x in self.cbs}
        self.late = 0
        self.closed = False
        self.conn = None
        self.t = None
        self.proxies = {}
        self.target = {}
        self.addr = address(self.eps, junk)
        d = txdbus.client.connect(self.r, self.addr)
        d.addCallbacks(lambda c: self._fire('ok', c), lambda f: self._fire('fail', f))
        self.nxml = 0

    def _fire(self, what, v):
        if self.closed_done():
            self.late += 1
        self.fired.append(what)
        if what == 'ok':
            self.conn = v
            # one callable registered twice (two users of a helper share its bound method), cancelled once: one
            # registration is left and runs once when the connection is lost
            self.twice_runs = 0

            def twice(c, reason):
                self.twice_runs += 1
            v.notifyOnDisconnect(twice)
            v.notifyOnDisconnect(twice)
            v.cancelNotifyOnDisconnect(twice)

    def closed_done(self):
        return getattr(self, '_after_close', False)

    def attempts(self):
        """number of connection attempts so far - negative if one of them went to another address than
        the one listed at that position"""
        for i, c in enumerate(self.r.connectors):
            d = c.getDestination()
            nm = d.name.decode('latin-1') if isinstance(getattr(d, 'name', None), bytes) else getattr(d, 'name', None)
            got = ('unix', nm) if d.__class__.__name__ == 'UNIXAddress' else ('tcp', d.host, d.port)
            if got != expected_destination(i):
                return -(i + 1)
        return len(self.r.connectors)

    def apply(self, name, args):
        getattr(self, 'do_' + name)(*args)

    def _pending(self):
        i = len(self.r.connectors) - 1
        conn = self.r.connectors[i]
        # the factory of the i-th attempt: attempts alternate between the unix and tcp lists
        nu = sum(1 for c in self.r.connectors[:i + 1] if c.getDestination().__class__.__name__ == 'UNIXAddress')
        if conn.getDestination().__class__.__name__ == 'UNIXAddress':
            fac = self.r.unixClients[nu - 1][1]
            unix = True
        else:
            fac = self.r.tcpClients[i + 1 - nu - 1][2]
            unix = False
        return conn, fac, unix

    def do_EpFail(self, why='refused'):
        from twisted.internet import error as terr
        conn, fac, unix = self._pending()
        exc = {'refused': ConnectionRefusedError('refused (harness)'), 'dns': terr.DNSLookupError('no such host (harness)'),
               'timeout': terr.TimeoutError('connect timed out (harness)')}[why]
        fac.clientConnectionFailed(conn, failure.Failure(exc))

    def do_EpOk(self):
        conn, fac, unix = self._pending()
        self.t = (fakes.UnixMemoryTransport if unix else fakes.MemoryTransport)()
        self.unix = unix
        self.proto = fac.buildProtocol(conn.getDestination())
        self.proto.makeConnection(self.t)
        self.t.take()

    def do_AuthOk(self):
        self.proto.dataReceived(b'OK 1234deadbeef\r\n')
        if self.unix:
            # the server passes descriptors, or it does not (ERROR is its legal answer): the connection comes up either way
            self.proto.dataReceived(b'AGREE_UNIX_FD\r\n' if (self.attempts() + len(self.cbs)) % 2 else b'ERROR "no descriptors here"\r\n')
        out = self.t.take()
        i = out.index(b'BEGIN\r\n') + 7
        hello = fakes.parse_all(out[i:])
        assert len(hello) == 1 and hello[0].member == 'Hello'
        self.hello_serial = hello[0].serial

    def do_AuthRefused(self):
        for _ in range(4):
            if self.t.disconnecting:
                break
            self.proto.dataReceived(b'REJECTED EXTERNAL\r\n')
        assert self.t.disconnecting, 'client did not give up'

    def do_HelloOk(self):
        r = message.MethodReturnMessage(self.hello_serial, body=[':1.42'], signature='s', destination=':1.42')
        self.proto.dataReceived(r.rawMessage)

    def do_HelloErr(self):
        # with or without an explanatory text (an error reply need not carry a body)
        if (self.attempts() + len(self.cbs)) % 2:
            r = message.ErrorMessage('org.freedesktop.DBus.Error.LimitsExceeded', self.hello_serial)
        else:
            r = message.ErrorMessage('org.freedesktop.DBus.Error.LimitsExceeded', self.hello_serial, signature='s', body=['full'])
        self.proto.dataReceived(r.rawMessage)

    def do_Close(self):
        self.reason = fakes.conn_lost()
        if getattr(self, 'conn', None) is not None and (len(self.fired) + len(self.cbs) + sum(self.ran.values())) % 2 == 0:
            # it is the application that ends the connection: disconnect(), and the transport reports the loss afterwards
            self.conn.disconnect()
        self.proto.connectionLost(self.reason)
        self._after_close = True
        self.closed = True
        if getattr(self, 'twice_runs', 1) != 1:
            raise AssertionError('a callable registered twice and cancelled once ran %d times at the loss' % self.twice_runs)

    def do_CloseCancelling(self, x):
        self.selfcancel = x
        try:
            self.do_Close()
        finally:
            self.selfcancel = None

    def do_CloseRetry(self, R):
        # user code reacts to the loss by issuing the calls in R (half of them with a deadline): from a connection-level
        # disconnect callback if one is registered, else from the errback of the outstanding call that fails first
        def reissue():
            for k in sorted(R):
                self.do_IssueCall(k, k % 2 == 0)
        hooks = [x for x in self.cbs if self.proxies.get(x) is self.conn and self.cbfn.get(x) in self.conn._dcCallbacks] \
            if hasattr(self, 'cbfn') else []
        # ... or from the disconnect callback of a live PROXY, when there is one and no connection-level callback
        phooks = [x for x in self.cbs if x in self.proxies and self.proxies[x] is not self.conn and
                  self.cbfn.get(x) in (getattr(self.proxies[x], '_disconnectCBs', None) or [])] if hasattr(self, 'cbfn') else []
        if not hooks and phooks:
            hooks = phooks[:1]
        if hooks and (len(R) % 2 == 1 or hooks == phooks[:1]):
            self.reissue_from = hooks[0]
            self.reissue = reissue
        else:
            first = sorted(k for k in self.calls if hasattr(self, 'serial') and k in self.serial and not self.callres[k])[0]

            def retry(f):
                reissue()
                return f
            # in front of the recording errback, so that the retry runs when the call fails
            d = self.calld[first]
            d.callbacks.insert(0, ((lambda v: v, (), {}), (retry, (), {})))
        try:
            self.do_Close()
        finally:
            self.reissue_from = None

    def do_Quiet(self):
        before = (len(self.fired), sum(len(v) for v in self.callres.values()), sum(self.ran.values()))
        self.r.advance(10 ** 6)
        after = (len(self.fired), sum(len(v) for v in self.callres.values()), sum(self.ran.values()))
        if after != before:
            self.late += 1

    def do_IssueCall(self, k, t):
        kw = {}
        if t:
            self.target[k] = self.r.seconds() + 500 + 7 * k
            kw['timeout'] = 500 + 7 * k
        d = self.conn.callRemote('/o', 'M%d' % k, interface='org.ex.I', destination='org.ex.D', **kw)
        d.addCallbacks(lambda v, k=k: self._callres(k, 'ok'), lambda f, k=k: self._callres(k, f))
        self.calld = getattr(self, 'calld', {})
        self.calld[k] = d
        out = fakes.parse_all(self.t.take())
        self.serial = getattr(self, 'serial', {})
        if out:
            self.serial[k] = out[0].serial
        else:
            # nothing goes out on a transport that was already asked to close (the call is outstanding all the same)
            assert self.t.disconnecting, 'a call wrote nothing to an open transport'
            self.serial[k] = max(self.conn._pendingCalls) if self.conn._pendingCalls else 0

    def _callres(self, k, what):
        if self.closed_done():
            self.late += 1
        if what != 'ok':
            from txdbus import error as txerror
            from twisted.internet import defer as _defer
            what = 'lost' if what is getattr(self, 'reason', None) else \
                'timeout' if isinstance(what.value, txerror.TimeOut) else \
                'cancelled' if isinstance(what.value, _defer.CancelledError) else 'other:' + type(what.value).__name__
        self.callres[k].append(what)

    def do_ExpireCall(self, k):
        # let exactly this deadline pass (as if the call had been given a shorter timeout)
        dcs = [dc for dc in self.r.getDelayedCalls() if dc.active() and dc.getTime() == self.target[k]]
        assert len(dcs) == 1, dcs
        dcs[0].reset(0)
        self.target[k] = self.r.seconds()
        self.r.advance(0)

    def do_CancelCall(self, k):
        self.calld[k].cancel()

    def do_ReplyCall(self, k):
        r = message.MethodReturnMessage(self.serial[k], destination=':1.42')
        self.proto.dataReceived(r.rawMessage)

    def do_Register(self, x, w):
        def cb(obj, reason, x=x):
            if reason is not getattr(self, 'reason', None):
                self.ran[x] += 100
            self.ran[x] += 1
            if obj is not self.conn:
                # the application's reaction to losing a proxy: it asks for one again (registered at once, the interface
                # being given) while the loss is still being reported to the other proxies
                again = interface.DBusInterface('org.verif.Again', interface.Method('Ping'), noRegister=True)
                self.relooked = getattr(self, 'relooked', [])
                self.conn.getRemoteObject('org.ex.Srv', '/again%d' % x, interfaces=[again]).addBoth(self.relooked.append)
            if getattr(self, 'selfcancel', None) == x:
                self.proxies[x].cancelNotifyOnDisconnect(self.cbfn[x])
            if getattr(self, 'reissue_from', None) == x:
                self.reissue_from = None
                self.reissue()
        self.cbfn = getattr(self, 'cbfn', {})
        self.cbfn[x] = cb
        if w == 'conn':
            self.conn.notifyOnDisconnect(cb)
            self.proxies[x] = self.conn
            return
        if w == 'explicit':
            iface = interface.DBusInterface('org.verif.Explicit', interface.Method('Ping'), noRegister=True)
            # a list of interfaces, as the API documents
            d = self.conn.getRemoteObject('org.ex.Srv', '/o', interfaces=[iface])
        else:
            d = self.conn.getRemoteObject('org.ex.Srv', '/o')
            calls = fakes.parse_all(self.t.take())
            assert calls and calls[-1].member == 'Introspect'
            self.nxml += 1
            r = message.MethodReturnMessage(calls[-1].serial, body=[XML % self.nxml], signature='s', destination=':1.42')
            self.proto.dataReceived(r.rawMessage)
        got = []
        d.addBoth(got.append)
        assert got and not isinstance(got[0], failure.Failure), got
        got[0].notifyOnDisconnect(cb)
        self.proxies[x] = got[0]

    def do_Unregister(self, x):
        self.proxies[x].cancelNotifyOnDisconnect(self.cbfn[x])

    def do_Reregister(self, x):
        self.proxies[x].notifyOnDisconnect(self.cbfn[x])

    def do_DropProxy(self, x):
        del self.proxies[x]        # no reference cycles: the proxy is freed at once

    def project(self):
        call = []
        for k in self.calls:
            res = self.callres[k]
            if not hasattr(self, 'serial') or k not in self.serial:
                call.append('new')
            elif not res:
                call.append('out')
            elif len(res) == 1:
                call.append(res[0])
            else:
                call.append('fired %d times' % len(res))
        times = [dc.getTime() for dc in self.r.getDelayedCalls() if dc.active()]
        timers = set()
        for k in self.calls:
            if k in self.target and self.target[k] in times:
                timers.add(k)
                times.remove(self.target[k])
        if times:
            timers.add(-1)
        return {'tried': self.attempts(), 'fired': self.fired[0] if self.fired else 'none', 'nfired': len(self.fired),
                'call': tuple(call), 'timers': frozenset(timers), 'ran': tuple(self.ran[x] for x in self.cbs), 'late': self.late}


def make_driver(params, acts):
    return ConnDriver(params['eps'], range(1, params['ncalls'] + 1), range(1, params['ncbs'] + 1), params.get('junk', False))


replay_file = core.replay_file


def cfg(eps, ncalls, ncbs, spec=True):
    s = 'SPECIFICATION Spec\n' if spec else ''
    s += 'CONSTANTS\n Eps <- cEps\n Calls = {%s}\n Cbs = {%s}\n' % (', '.join(map(str, range(1, ncalls + 1))),
                                                                   ', '.join(map(str, range(1, ncbs + 1))))
    if spec:
        s += ''.join('INVARIANT %s\n' % i for i in INVS) + 'CHECK_DEADLOCK FALSE\n'
    return s


def mc_module(eps):
    return '---- MODULE MC_ConnLife ----\nEXTENDS ConnLife\ncEps == %s\n====\n' % to_tla(tuple(eps))


def trace_cfg(params):
    return cfg(params['eps'], params['ncalls'], params['ncbs'], spec=False)


def rerecord(params, acts):
    drv = make_driver(params, acts)
    tr = [({'n': 'Init'}, drv.project())]
    for n, a in acts:
        drv.apply(n, a)
        rec = {'n': n}
        rec.update(dict(zip(ACTIONS[n], a)))
        tr.append((rec, drv.project()))
    return tr


INVS = ['Once', 'Concludes', 'ReadyMeansOk', 'FirstReachable', 'AllTriedBeforeGivingUp', 'LossFailsAll', 'CallbacksOnce', 'Silence']


def run(tier, seed):
    chk = core.Check('C09', tier, seed)
    rng = random.Random(seed)
    thorough = tier == 'thorough'
    # address lists: every reachability pattern of up to 3 endpoints
    lists = [()] + [tuple(bool((m >> i) & 1) for i in range(n)) for n in (1, 2, 3) for m in range(2 ** n)]
    jobs = []
    for eps in lists:
        ncalls, ncbs = (2, 3) if (eps in ((True,), (False, True)) or (thorough and eps and eps[-1])) else (1, 1)
        params = {'eps': list(eps), 'ncalls': ncalls, 'ncbs': ncbs, 'junk': len(eps) == 2}
        jobs.append((eps, params))

    def model(job):
        eps, params = job
        extra = {'MC_ConnLife.tla': mc_module(eps), 'c.cfg': cfg(eps, params['ncalls'], params['ncbs'])}
        return tlc.dump_graph('MC_ConnLife', 'c.cfg', extra=extra, timeout=600, workers=2)
    from concurrent.futures import ThreadPoolExecutor
    with ThreadPoolExecutor(8) as ex:
        graphs = list(ex.map(model, jobs))
    for (eps, params), (res, g) in zip(jobs, graphs):
        ncalls, ncbs = params['ncalls'], params['ncbs']
        chk.tlc_stats(res, 'ConnLife eps=%s calls=%d cbs=%d' % (''.join('R' if e else 'u' for e in eps) or '-', ncalls, ncbs))
        if not res.ok:
            chk.violation('model: ConnLife(%r) %s %s' % ((eps,) + res.violation), dict(kind='TLC', trace=repr(res.trace[-3:])))
        paths = list(core.edge_cover_paths(g))
        if len(paths) > (20000 if thorough else 1000):
            paths = rng.sample(paths, 20000 if thorough else 1000)
        label = 'eps=' + (''.join('R' if e else 'u' for e in eps) or '-')
        core.replay_paths(chk, g, paths, lambda a, p=params: make_driver(p, a), label + ' edges', 'c09', params)
        if ncalls > 1:
            core.replay_paths(chk, g, list(core.random_walks(g, 2000 if thorough else 300, 14, rng)),
                              lambda a, p=params: make_driver(p, a), label + ' walks', 'c09', params)
    # code -> spec: random fault sequences on longer address lists with more calls and callbacks
    for eps in ((False, False, True, True), (True,), (False, False, False, False, True)):
        params = {'eps': list(eps), 'ncalls': 4, 'ncbs': 5, 'junk': True}
        batch = []
        for _ in range(150 if thorough else 30):
            try:
                drv = make_driver(params, None)
                tr = [({'n': 'Init'}, drv.project())]
                phase = 'connecting'
                i = 0
                issued, regs = set(), {}
                for _ in range(40):
                    if phase == 'connecting':
                        a = ('EpOk', ()) if eps[i] else ('EpFail', (rng.choice(['refused', 'dns', 'timeout']),))
                        if eps[i]:
                            phase = 'auth'
                        i += 1
                    elif phase == 'auth':
                        a = rng.choice([('AuthOk', ()), ('AuthOk', ()), ('AuthRefused', ()), ('Close', ())])
                        phase = {'AuthOk': 'hello', 'AuthRefused': 'closing', 'Close': 'closed'}[a[0]]
                    elif phase == 'closing':
                        a = ('Close', ())
                        phase = 'closed'
                    elif phase == 'hello':
                        a = rng.choice([('HelloOk', ()), ('HelloOk', ()), ('HelloErr', ()), ('Close', ())])
                        phase = {'HelloOk': 'ready', 'HelloErr': 'hellofailed', 'Close': 'closed'}[a[0]]
                    elif phase == 'hellofailed':
                        a = ('Close', ())
                        phase = 'closed'
                    elif phase == 'ready':
                        r = rng.random()
                        new = [k for k in range(1, 5) if k not in issued]
                        out = [k for k in issued if drv.callres[k] == []]
                        unreg = [x for x in range(1, 6) if x not in regs]
                        prox = [x for x, w in regs.items() if w in ('explicit', 'intro', 'off-explicit', 'off-intro')]
                        if r < 0.25 and new:
                            k = rng.choice(new)
                            issued.add(k)
                            a = ('IssueCall', (k, rng.random() < 0.5))
                        elif r < 0.4 and out:
                            k = rng.choice(out)
                            timed = [kk for kk in out if kk in drv.target]
                            r2 = rng.random()
                            if r2 < 0.25:
                                a = ('CancelCall', (k,))
                            elif k in drv.target and r2 < 0.6:
                                a = ('ExpireCall', (k,))
                            else:
                                a = ('ReplyCall', (k,))
                        elif r < 0.7 and unreg:
                            x = rng.choice(unreg)
                            regs[x] = rng.choice(['conn', 'explicit', 'intro', 'intro'])
                            a = ('Register', (x, regs[x]))
                        elif r < 0.78 and prox:
                            x = rng.choice(prox)
                            regs[x] = 'dropped'
                            a = ('DropProxy', (x,))
                        elif r < 0.84 and [x for x, w in regs.items() if w in ('conn', 'explicit', 'intro')]:
                            x = rng.choice([x for x, w in regs.items() if w in ('conn', 'explicit', 'intro')])
                            regs[x] = 'off-' + regs[x]
                            a = ('Unregister', (x,))
                        elif r < 0.88 and [x for x, w in regs.items() if w.startswith('off-')]:
                            x = rng.choice([x for x, w in regs.items() if w.startswith('off-')])
                            regs[x] = regs[x][4:]
                            a = ('Reregister', (x,))
                        elif r < 0.94:
                            a = ('Close', ())
                            phase = 'closed'
                        else:
                            continue
                    else:
                        a = ('Quiet', ())
                    drv.apply(*a)
                    rec = {'n': a[0]}
                    rec.update(dict(zip(ACTIONS[a[0]], a[1])))
                    tr.append((rec, drv.project()))
                    if a[0] == 'Quiet':
                        break
                batch.append(tr)
            except Exception:
                chk.violation('recording: implementation raised', dict(kind='exception', module='c09', trace=core.traceback_str()))
                break
        core.validate_and_report(chk, 'MC_ConnLife', OBS, ACTIONS, batch, trace_cfg(params), INVS, 'c09', params,
                                 'random eps=%r' % (eps,), nproc=6, extra={'MC_ConnLife.tla': mc_module(eps)})
    chk.sample({'recorded': [a for a, s in batch[0]][:8]})
    # what "the bus address list" means: address strings -> endpoints to try, in order (spec/Address.tla)
    from . import address
    address.stage(chk, rng, thorough)
    tr = [list(x) for x in batch[0]]
    tr[-1] = (tr[-1][0], dict(tr[-1][1], nfired=tr[-1][1]['nfired'] + 1))
    rej, _ = core.validate_traces('MC_ConnLife', OBS, [[tuple(x) for x in tr]], ACTIONS, cfg_consts=trace_cfg(params), nproc=1,
                                  extra={'MC_ConnLife.tla': mc_module(eps)})
    chk.canary = {'what': 'the connect Deferred recorded as having fired once more', 'rejected': bool(rej)}
    chk.assumptions = ['endpoints are exercised through twisted MemoryReactorClock (connection attempts completed or refused by the '
                       'schedule); nonce-tcp is connected like tcp (the code does not send the nonce); launchd entries yield no endpoint',
                       'the server side of the handshake is scripted lines (C07 covers the handshake itself)',
                       'a dropped proxy is one whose last reference was released and collected']
    return chk.finish(
        rule='for every reachability pattern of address lists with up to 3 endpoints TLC explores all orders of endpoint results, '
             'handshake outcome, Hello outcome, calls (with and without deadline), callback registration on the connection and on '
             'explicit / introspected proxies for the same object, proxy release and the transport closing at every point; every '
             'edge (and random walks) is replayed on the real connect() path; random fault sequences on longer lists are '
             'validated by TLC',
        exhaustive=True)
