"""Small reference encoder for the DBus wire format, written from the DBus specification and
independent of txdbus.marshal.  Used by the harness to build the bytes *another implementation*
would send (either byte order, any header-field order).  Its output is itself cross-checked against
the TLA+ reference encoder (spec/Wire.tla) by the C02/C03 checks.

Values: int / bool / float / str, list for arrays, tuple (or list) for structs, dict for a{..},
Variant(sig, value) for variants.
"""
import struct

ALIGN = {'y': 1, 'b': 4, 'n': 2, 'q': 2, 'i': 4, 'u': 4, 'x': 8, 't': 8, 'd': 8, 's': 4, 'o': 4, 'g': 1,
         'a': 4, '(': 8, 'v': 1, '{': 8, 'h': 4}
FIXED = {'y': 'B', 'n': 'h', 'q': 'H', 'i': 'i', 'u': 'I', 'x': 'q', 't': 'Q', 'd': 'd', 'h': 'I'}


class Variant:
    def __init__(self, sig, value):
        self.sig = sig
        self.value = value

    def __repr__(self):
        return 'Variant(%r, %r)' % (self.sig, self.value)


def split(sig):
    """complete types of a signature (structural recursion on the grammar)"""
    out = []
    i = 0
    while i < len(sig):
        j = _end(sig, i)
        out.append(sig[i:j])
        i = j
    return out


def _end(sig, i):
    c = sig[i]
    if c == 'a':
        return _end(sig, i + 1)
    if c in '({':
        close = ')' if c == '(' else '}'
        j = i + 1
        while sig[j] != close:
            j = _end(sig, j)
        return j + 1
    return i + 1


def _pad(buf, align):
    while len(buf) % align:
        buf.append(0)


def _enc(buf, t, v, e):
    c = t[0]
    _pad(buf, ALIGN[c])
    if c in FIXED:
        buf += struct.pack(e + FIXED[c], v)
    elif c == 'b':
        buf += struct.pack(e + 'I', 1 if v else 0)
    elif c in 'so':
        b = v.encode('utf-8')
        buf += struct.pack(e + 'I', len(b)) + b + b'\0'
    elif c == 'g':
        b = v.encode('ascii')
        buf += bytes([len(b)]) + b + b'\0'
    elif c == 'a':
        et = t[1:]
        buf += b'\0\0\0\0'
        lenpos = len(buf) - 4
        _pad(buf, ALIGN[et[0]])
        start = len(buf)
        items = list(v.items()) if isinstance(v, dict) else list(v)
        for it in items:
            _enc(buf, et, it, e)
        buf[lenpos:lenpos + 4] = struct.pack(e + 'I', len(buf) - start)
    elif c in '({':
        for ft, fv in zip(split(t[1:-1]), v):
            _enc(buf, ft, fv, e)
    elif c == 'v':
        _enc(buf, 'g', v.sig, e)
        _enc(buf, v.sig, v.value, e)
    else:
        raise ValueError('type code %r' % c)


def enc(sig, values, off=0, le=True):
    """bytes of `values` under `sig` when the first byte lands at stream offset `off`"""
    buf = bytearray(off)
    e = '<' if le else '>'
    for t, v in zip(split(sig), values):
        _enc(buf, t, v, e)
    return bytes(buf[off:])


HNAME = {'path': (1, 'o'), 'interface': (2, 's'), 'member': (3, 's'), 'error_name': (4, 's'),
         'reply_serial': (5, 'u'), 'destination': (6, 's'), 'sender': (7, 's'), 'signature': (8, 'g'),
         'unix_fds': (9, 'u')}


def msg(mtype, serial, fields, body_sig=None, body=None, flags=0, le=True, extra=(), body_raw=None):
    """fields: list of (name, value) in the order to be written; extra: list of (code, sig, value)
    unknown header fields inserted at the front."""
    if body_raw is not None:
        bbytes = body_raw          # hostile: arbitrary bytes under an arbitrary signature string
    else:
        bbytes = enc(body_sig, body, 0, le) if body_sig else b''
    fl = [(code, Variant(sig, value)) for code, sig, value in extra]
    for name, value in fields:
        code, sig = HNAME[name]
        fl.append((code, Variant(sig, value)))
    if body_sig and not any(n == 'signature' for n, _ in fields):
        fl.append((8, Variant('g', body_sig)))
    hdr = enc('yyyyuua(yv)', [ord('l') if le else ord('B'), mtype, flags, 1, len(bbytes), serial, fl], 0, le)
    buf = bytearray(hdr)
    _pad(buf, 8)
    return bytes(buf) + bbytes
