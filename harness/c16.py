"""C16 - the exported-object tree seen remotely is exactly what was exported.  Spec: spec/ObjTree.tla."""
import random
import re

from . import core, tlc, fakes
from .tlaval import FnDict

from twisted.python import components

from txdbus import objects, interface, message

ACTIONS = {'Export': ('p', 'k'), 'Unexport': ('p',)}
OBS = ['sig', 'view']
BASE = 'MC_ObjTree'

I1 = interface.DBusInterface('org.verif.I1', interface.Method('Ping1', returns='s'),
                             interface.Property('p1', 'i'), interface.Property('p2', 'i'), noRegister=True)
# (I2 also declares a write-only 'p2': K2 binds its p2 explicitly to I1's readable declaration of that name)
I2 = interface.DBusInterface('org.verif.I2', interface.Method('Ping2', returns='s'), interface.Property('q', 's'), interface.Property('w', 'u', readable=False, writeable=True),
                             interface.Property('p2', 'i', readable=False, writeable=True), noRegister=True)


class K1(objects.DBusObject):
    dbusInterfaces = [I1]
    p1 = objects.DBusProperty('p1')

    def __init__(self, path):
        objects.DBusObject.__init__(self, path)
        self.p1 = 7

    def dbus_Ping1(self):
        return 'pong'


class K2(K1):
    dbusInterfaces = [I2]
    q = objects.DBusProperty('q')
    w = objects.DBusProperty('w')
    p2 = objects.DBusProperty('p2', interface='org.verif.I1')          # one more property of the BASE class's interface

    def __init__(self, path):
        K1.__init__(self, path)
        self.q = ''                          # readable properties whose current values are empty / zero
        self.w = 3
        self.p2 = 0

    def __len__(self):                       # a container-like application object that is currently empty
        return 0

    def dbus_Ping2(self):
        return 'pong2'


CLS = {'K1': K1, 'K2': K2}


class Boxed:
    """an application object that is not a DBusObject itself: it is exported through the adapter registered for it"""
    def __init__(self, impl):
        self.impl = impl


components.registerAdapter(lambda boxed: boxed.impl, Boxed, objects.IDBusObject)
PROPS = 'org.freedesktop.DBus.Properties'
EXPECT = {'K1': {'org.verif.I1': {'p1': 7}, PROPS: {}},
          'K2': {'org.verif.I1': {'p1': 7, 'p2': 0}, 'org.verif.I2': {'q': ''}, PROPS: {}}}


def pstr(p):
    return '/' + '/'.join(p)


def ptuple(s):
    return tuple(x for x in s.split('/') if x)


class Conn:
    def __init__(self):
        self.sent = []

    def sendMessage(self, m):
        self.sent.append(m)


def cls_of_ifaces(d):
    """class id of an {interface: {prop: value}} dictionary, '?' if it is none of the classes"""
    for k, e in EXPECT.items():
        if d == e:
            return k
    return '?' + repr(d)[:80]


class TreeDriver:
    def __init__(self, universe):
        self.conn = Conn()
        self.h = objects.DBusObjectHandler(self.conn)
        self.universe = universe
        self.serial = 50
        self.last_sig = {'kind': 'none', 'path': (), 'cls': '-'}
        self.made = {}          # (path, class) -> instance: the application exports the same instance again
        # a second connection of the same process, on which every other object is exported as well (afterwards)
        self.conn_b = Conn()
        self.h_b = objects.DBusObjectHandler(self.conn_b)
        self.on_b = set()

    def apply(self, name, args):
        del self.conn.sent[:]
        if name == 'Export':
            key = (args[0], args[1])
            if key not in self.made:
                self.made[key] = CLS[args[1]](pstr(args[0]))
            # every third export goes through an adapter
            self.h.exportObject(Boxed(self.made[key]) if (len(self.made) + len(args[0])) % 3 == 0 else self.made[key])
            if (len(args[0]) + len(self.made)) % 2 == 0:
                self.h_b.exportObject(self.made[key])
                self.on_b.add(args[0])
        else:
            self.h.unexportObject(pstr(args[0]))
            if args[0] in self.on_b:
                self.on_b.discard(args[0])
                self.h_b.unexportObject(pstr(args[0]))
        sigs = [m for m in self.conn.sent]
        if len(sigs) != 1 or sigs[0]._messageType != 4:
            self.last_sig = {'kind': 'unexpected %d messages' % len(sigs), 'path': (), 'cls': '-'}
            return
        m = message.parseMessage(sigs[0].rawMessage, [])
        if m.interface != 'org.freedesktop.DBus.ObjectManager' or m.path != m.body[0]:
            self.last_sig = {'kind': 'malformed', 'path': ptuple(m.path), 'cls': '-'}
        elif m.member == 'InterfacesAdded':
            self.last_sig = {'kind': m.member, 'path': ptuple(m.body[0]), 'cls': cls_of_ifaces(m.body[1])}
        else:
            names = set(m.body[1])
            k = [c for c, e in EXPECT.items() if set(e) == names]
            self.last_sig = {'kind': m.member, 'path': ptuple(m.body[0]), 'cls': k[0] if k else '?' + repr(sorted(names))}

    def call(self, path, iface, member):
        self.serial += 1
        c = message.MethodCallMessage(path, member, interface=iface, destination=':1.2')
        pm = message.parseMessage(c.rawMessage, [])
        pm.sender = ':1.9'
        del self.conn.sent[:]
        self.h.handleMethodCallMessage(pm)
        out = [message.parseMessage(m.rawMessage, []) for m in self.conn.sent]
        return pm, out

    def project(self):
        view = {}
        for q in self.universe:
            qs = pstr(q)
            # Introspect
            c, out = self.call(qs, 'org.freedesktop.DBus.Introspectable', 'Introspect')
            if len(out) != 1 or out[0].reply_serial != c.serial:
                intro = {'ok': False, 'own': '%d replies' % len(out), 'children': frozenset()}
            elif out[0]._messageType == 3:
                intro = {'ok': False, 'own': '-' if out[0].error_name == 'org.freedesktop.DBus.Error.UnknownObject' else out[0].error_name,
                         'children': frozenset()}
            else:
                xml = out[0].body[0]
                kid_list = re.findall(r'<node name="([^"]*)"\s*/>', xml)
                kids = frozenset(kid_list)
                if len(kid_list) != len(kids):
                    kids = frozenset(kids | {'listed %d times: %s' % (kid_list.count(k), k) for k in kids if kid_list.count(k) > 1})
                names = set(re.findall(r'<interface name="([^"]*)"', xml)) - {
                    'org.freedesktop.DBus.Introspectable', 'org.freedesktop.DBus.Peer', 'org.freedesktop.DBus.ObjectManager'}
                own = '-' if not names else ([k for k, e in EXPECT.items() if set(e) == names] or ['?' + repr(sorted(names))])[0]
                # what Introspect announces is what answers: members of the class exported there now, and no others
                for member, iface, classes in (('Ping1', 'org.verif.I1', ('K1', 'K2')), ('Ping2', 'org.verif.I2', ('K2',))):
                    c2, out2 = self.call(qs, iface, member)
                    answers = len(out2) == 1 and out2[0]._messageType == 2 and out2[0].reply_serial == c2.serial
                    if answers != (own in classes):
                        own = '?%s but %s %s' % (own, member, 'answers' if answers else 'does not answer')
                intro = {'ok': True, 'own': own, 'children': kids}
            # GetManagedObjects
            c, out = self.call(qs, 'org.freedesktop.DBus.ObjectManager', 'GetManagedObjects')
            if len(out) == 1 and out[0]._messageType == 2:
                managed = {'ok': True, 'objs': FnDict({ptuple(p): cls_of_ifaces(d) for p, d in out[0].body[0].items()})}
            else:
                managed = {'ok': False, 'objs': ()}
            # an ordinary call
            c, out = self.call(qs, 'org.verif.I1', 'Ping1')
            if len(out) == 1 and out[0]._messageType == 2 and out[0].body == ['pong']:
                call = 'dispatched'
            elif len(out) == 1 and out[0]._messageType == 3:
                call = out[0].error_name.rsplit('.', 1)[-1]
            else:
                call = '%d replies' % len(out)
            if call == 'UnknownObject':
                # nothing is exported here: that is the answer to a call on ANY interface, the standard ones included
                for ifc, mem in (('org.freedesktop.DBus.Peer', 'GetMachineId'), ('org.freedesktop.DBus.Properties', 'GetAll'),
                                 ('org.freedesktop.DBus.Peer', 'Pong')):
                    c3, out3 = self.call(qs, ifc, mem)
                    if not (len(out3) == 1 and out3[0]._messageType == 3 and
                            out3[0].error_name == 'org.freedesktop.DBus.Error.UnknownObject'):
                        call = 'UnknownObject, but %s.%s is answered otherwise' % (ifc.rsplit('.', 1)[-1], mem)
            view[q] = {'intro': intro, 'managed': managed, 'call': call}
        return {'sig': self.last_sig, 'view': FnDict(view)}


UNI = [(), ('a',), ('a', 'b'), ('a', 'bc'), ('a', 'b', 'c'), ('ab',)]
UNIBIG = UNI + [('a', 'b', 'c', 'd'), ('a', 'b', 'cd'), ('a', 'bc', 'c')]


def make_driver(params, acts):
    return TreeDriver(UNIBIG if params.get('big') else UNI)


replay_file = core.replay_file


def trace_cfg(params):
    return 'CONSTANTS\n Paths <- %s\n Classes = {"K1", "K2"}\n' % ('cPathsBig' if params.get('big') else 'cPaths')


def rerecord(params, acts):
    drv = make_driver(params, acts)
    tr = [({'n': 'Init'}, drv.project())]
    for n, a in acts:
        drv.apply(n, a)
        rec = {'n': n}
        rec.update(dict(zip(ACTIONS[n], a)))
        tr.append((rec, drv.project()))
    return tr


def run(tier, seed):
    chk = core.Check('C16', tier, seed)
    rng = random.Random(seed)
    thorough = tier == 'thorough'
    res, g = tlc.dump_graph(BASE, 'MC_ObjTree.cfg', timeout=300)
    chk.tlc_stats(res, 'ObjTree: 6 paths x 2 classes, all histories')
    if not res.ok:
        chk.violation('model: ObjTree %s %s' % res.violation, dict(kind='TLC', trace=repr(res.trace[-2:])))
    chk.notes['graph'] = [len(g.nodes), g.nedges]
    # every edge lies on one of the tours (long paths: the view is queried at every path after every step, which is what
    # costs); the quick tier takes a sample of them
    paths = list(core.edge_cover_tours(g, 25))
    chk.notes['tours'] = len(paths)
    if not thorough and len(paths) > 260:
        paths = rng.sample(paths, 260)
    core.replay_paths(chk, g, paths, lambda acts: TreeDriver(UNI), 'edges', 'c16', {})
    core.replay_paths(chk, g, list(core.random_walks(g, 1500 if thorough else 100, 12, rng)), lambda acts: TreeDriver(UNI), 'walks', 'c16', {})
    # code -> spec: larger universe (deeper siblings), random histories
    batch = []
    for _ in range(150 if thorough else 40):
        drv = TreeDriver(UNIBIG)
        tr = [({'n': 'Init'}, drv.project())]
        exported = set()
        for _ in range(rng.randint(4, 12)):
            if exported and rng.random() < 0.4:
                p = rng.choice(sorted(exported))
                a = ('Unexport', (p,))
                exported.discard(p)
            else:
                p = rng.choice(UNIBIG)
                a = ('Export', (p, rng.choice(['K1', 'K2'])))
                exported.add(p)
            try:
                drv.apply(*a)
                rec = {'n': a[0]}
                rec.update(dict(zip(ACTIONS[a[0]], a[1])))
                tr.append((rec, drv.project()))
            except Exception:
                chk.violation('recording: implementation raised', dict(kind='exception', module='c16', trace=core.traceback_str()))
                break
        batch.append(tr)
    core.validate_and_report(chk, BASE, OBS, ACTIONS, batch, trace_cfg({'big': True}),
                             ['ViewIsFunctionOfExports', 'IntrospectableIffAncestor', 'ManagedAreBeneath'], 'c16', {'big': True},
                             'random/9 paths', nproc=8)
    chk.sample({'recorded': [a for a, s in batch[0]][:5]})
    # an export that FAILS (a readable property that was never given a value cannot be put into the announcement): the
    # tree is what the successful exports imply - the object is not there, neither for calls nor in its parent's listing
    class Unset(objects.DBusObject):
        dbusInterfaces = [I1]
        p1 = objects.DBusProperty('p1')

        def dbus_Ping1(self):
            return 'pong'
    drv = TreeDriver(UNI)
    drv.apply('Export', (('a',), 'K1'))
    before = drv.project()['view']
    failed = False
    try:
        drv.h.exportObject(Unset('/a/b'))
    except Exception:
        failed = True
    try:
        after = drv.project()['view']
        changed = sorted(k for k in dict(after) if dict(after)[k] != dict(before).get(k))
    except Exception as ex:
        changed = ['(asking the tree now raises %s)' % type(ex).__name__]
    chk.traces += 1
    if failed and changed:
        chk.violation('an export that raised left the object visible: the view of the tree changed at %s' % (changed,),
                      dict(kind='case', module='c16'))

    # canary: drop one child from a recorded introspection
    tr = [list(x) for x in rerecord({'big': True}, [('Export', (('a',), 'K1')), ('Export', (('a', 'b'), 'K2'))])]
    done = False
    for j in range(len(tr) - 1, 0, -1):
        v = dict(tr[j][1]['view'])
        for q in list(v):
            if v[q]['intro']['children']:
                e = dict(v[q])
                i = dict(e['intro'])
                i['children'] = frozenset(list(i['children'])[1:])
                e['intro'] = i
                v[q] = e
                tr[j] = (tr[j][0], dict(tr[j][1], view=FnDict(v)))
                done = True
                break
        if done:
            break
    rej, _ = core.validate_traces(BASE, OBS, [[tuple(x) for x in tr]], ACTIONS, cfg_consts=trace_cfg({'big': True}), nproc=1)
    chk.canary = {'what': 'one child removed from a recorded introspection result', 'rejected': bool(rej)}
    chk.assumptions = ['two object classes (one and two interfaces, readable and write-only properties) stand for "all its '
                       'interfaces and readable properties"', 'calls are handed to handleMethodCallMessage as parsed messages']
    return chk.finish(
        rule='all export/unexport histories over 6 paths (parent, child, grandchild, siblings sharing a textual prefix) x 2 '
             'classes are explored by TLC; after every step of every edge path and of random walks Introspect, '
             'GetManagedObjects and an ordinary call are sent to every path and compared, as is the announced signal; random '
             'histories over 9 paths are validated by TLC',
        exhaustive=True)
