"""C07 - the client speaks DBus only after the server's OK and never stalls in handshake.
Specs: spec/AuthClient.tla (client automaton, all server line sequences) and spec/AuthPair.tla (client
against a reference server for every subset of accepted mechanisms / negotiation answer)."""
import atexit
import binascii
import hashlib
import os
import random
import shutil
import tempfile

from . import core, tlc, fakes
from .tlaval import to_tla

import txdbus.client
from txdbus import authentication

ACTIONS = {'Rejected': (), 'ErrorLine': (), 'Agree': (), 'Ok': ('g',), 'Data': ('k',), 'Unknown': ('k',), 'AfterClose': ('k',)}
OBS = ['offered', 'out']        # phase is bound only where it was observable in every state
COOKIE = b'1122334455667788aabbccdd'


_HOME = []


def shared_home():
    if not _HOME:
        d = tempfile.mkdtemp(prefix='txv-ckr-')
        os.chmod(d, 0o700)
        os.mkdir(os.path.join(d, '.dbus-keyrings'), 0o700)
        atexit.register(shutil.rmtree, d, ignore_errors=True)
        _HOME.append(d)
    return _HOME[0]


class AuthClientDriver:
    made = 0

    def __init__(self, unix, cookie_ok, rng=None, pref='stock'):
        self.unix = unix
        self.pref = pref
        fakes.install_clock()
        # ONE home directory for all the connections this process makes, one after the other: the server replaces its
        # cookie between two handshakes (same file, same id, often within the same second) - what a client answers
        # must come from the keyring as it is now
        self.dir = shared_home()
        AuthClientDriver.made += 1
        self.cookie = COOKIE[:-4] + b'%04x' % (AuthClientDriver.made % 65536)
        ring = os.path.join(self.dir, '.dbus-keyrings', 'ctx')
        if cookie_ok:
            with open(ring, 'wb') as f:
                f.write(b'12 100 deadbeef\n1 100 ' + self.cookie + b'\n21 100 00ff\n')      # ids that share digits: only the id asked for counts
        elif os.path.exists(ring):
            os.unlink(ring)
        # the client looks for the keyring under ~ : point HOME at the scratch directory instead of
        # overriding cookie_dir (which would hide a client unable to find its keyring by itself)
        self.saved_home = os.environ.get('HOME')
        os.environ['HOME'] = self.dir
        self.t = (fakes.UnixMemoryTransport if unix else fakes.MemoryTransport)()
        self.c = txdbus.client.DBusClientConnection()
        if pref == 'alt':
            # the application states its own preference, the documented way: a subclass of the authenticator
            from txdbus import authentication as _a
            self.c.authenticator = type('OwnChoice', (_a.ClientAuthenticator,), {'preference': [b'ANONYMOUS', b'EXTERNAL']})
        self.f = fakes.Factory()
        self.c.factory = self.f
        self.pos = 0
        self.offered = []
        self.begun = False
        self.rng = rng
        self.exc = None
        self.c.makeConnection(self.t)

    def close(self):
        if self.saved_home is None:
            os.environ.pop('HOME', None)
        else:
            os.environ['HOME'] = self.saved_home

    def feed(self, line):
        data = line + (b'\r\n' if len(line) < 16384 else b'')        # an endless line has no end
        try:
            if self.rng is not None and len(data) > 2 and self.rng.random() < 0.6:
                c = self.rng.randrange(1, len(data))
                self.c.dataReceived(data[:c])
                self.c.dataReceived(data[c:])
            else:
                self.c.dataReceived(data)
        except Exception as ex:       # Twisted would drop the connection
            self.exc = ex
            self.t.loseConnection()

    def line_for(self, name, args):
        if name == 'Rejected':
            return b'REJECTED EXTERNAL DBUS_COOKIE_SHA1 ANONYMOUS'
        if name == 'ErrorLine':
            # the explanation is free text: ASCII, Latin-1 bytes that are not UTF-8, or none at all
            self.nerr = getattr(self, 'nerr', 0) + 1
            return [b'ERROR', b'ERROR "\xe9chec \xfcbel"', b'ERROR "no"'][self.nerr % 3]
        if name == 'Agree':
            return b'AGREE_UNIX_FD'
        if name == 'Ok':
            return {'valid': b'OK 1234deadbeef', 'nothex': b'OK xyz', 'missing': b'OK', 'spaced': b'OK 1234 deadbeef',
                    'odd': b'OK 1234dea', 'tabbed': b'OK 12\t34'}[args[0]]
        if name == 'Data':
            return {'challenge': b'DATA ' + binascii.hexlify(b'ctx 1 5ea1ed'), 'noid': b'DATA ' + binascii.hexlify(b'ctx 99 5ea1ed'),
                    'garbage': b'DATA zz'}[args[0]]
        if name == 'Unknown':
            return {'word': b'HELLO there', 'empty': b'', 'nontext': b'\xff\xfeOK 12', 'begin': b'BEGIN',
                    'endless': b'OK ' + b'1' * 17000}[args[0]]
        if name == 'AfterClose':
            return b'OK 1234deadbeef' if args[0] == 'ok' else b'REJECTED'
        raise ValueError(name)

    def apply(self, name, args):
        self.feed(self.line_for(name, args))

    def apply_many(self, acts):
        """several server lines in ONE read"""
        data = b''.join(self.line_for(n, a) + b'\r\n' for n, a in acts)
        try:
            self.c.dataReceived(data)
        except Exception as ex:
            self.exc = ex
            self.t.loseConnection()

    def project(self):
        log = self.t.log[self.pos:]
        self.pos = len(self.t.log)
        out = []
        data = b''
        for e in log:
            if e[0] == 'bytes':
                data += e[1]
            elif e[0] == 'close':
                if data:
                    out += self.tokens(data)
                    data = b''
                out.append('close')
            elif e[0] == 'write-after-close':
                out.append('wrote %d bytes after hanging up' % len(e[1]))
        if data:
            out += self.tokens(data)
        phase = 'closed' if self.t.disconnecting else 'begun' if self.begun else None
        st = {'out': tuple(out), 'offered': tuple(self.offered)}
        if phase:
            st['phase'] = phase
        else:
            a = getattr(self.c, '_dbusAuth', None)
            if a is not None and hasattr(a, 'negotiatingUnixFD'):
                st['phase'] = 'nego' if a.negotiatingUnixFD else 'auth'
        return st

    def tokens(self, data):
        toks = []
        while data:
            if self.begun:
                # binary: must be exactly the Hello call
                try:
                    msgs = fakes.parse_all(data)
                    ok = len(msgs) == 1 and msgs[0].member == 'Hello' and msgs[0].destination == 'org.freedesktop.DBus'
                except Exception:
                    ok = False
                if not ok:
                    toks.append('binary(not a single Hello)')
                return toks
            if data[:1] == b'\0' and not self.offered and not toks:
                toks.append('NUL')
                data = data[1:]
                continue
            i = data.find(b'\r\n')
            if i < 0:
                toks.append('binary-before-BEGIN:%r' % data[:12])
                return toks
            line, data = data[:i], data[i + 2:]
            w = line.split(b' ')
            if w[0] == b'AUTH':
                m = w[1].decode() if len(w) > 1 else '?'
                self.offered.append(m)
                toks.append('AUTH ' + m)
            elif w[0] == b'DATA':
                if len(w) == 1:
                    toks.append('DATA')
                else:
                    toks.append('DATA response' if self.right_response(w[1]) else 'DATA wrong-response')
            elif w[0] == b'ERROR':
                toks.append('ERROR')
            elif line == b'NEGOTIATE_UNIX_FD':
                toks.append('NEGOTIATE_UNIX_FD')
            elif line == b'BEGIN':
                toks.append('BEGIN')
                self.begun = True
            else:
                toks.append('line:%r' % line[:20])
        return toks

    def right_response(self, hexed):
        try:
            cc, resp = binascii.unhexlify(hexed).split()
        except Exception:
            return False
        want = binascii.hexlify(hashlib.sha1(b':'.join([b'5ea1ed', cc, self.cookie])).digest())
        return resp == want


def make_driver(params, acts):
    return AuthClientDriver(params['unix'], params['cookie'], pref=params.get('pref', 'stock'))


replay_file = core.replay_file


def client_cfg(unix, ck, pair=False, pref='stock'):
    s = 'SPECIFICATION %s\nCONSTANTS\n Unix = %s\n CookieOK = %s\n Pref <- %s\nINVARIANT BeginSafe\nINVARIANT InOrderOnce\n' % (
        'PairSpec' if pair else 'Spec', 'TRUE' if unix else 'FALSE', 'TRUE' if ck else 'FALSE',
        'PrefAlt' if pref == 'alt' else 'PrefStock')
    if pair:
        s += 'PROPERTY Completes\nPROPERTY GivesUp\nPROPERTY NeverBoth\n'
    else:
        s += 'INVARIANT TypeOK\nPROPERTY NoStall\nPROPERTY ClosedForReason\n'
    return s + 'CHECK_DEADLOCK FALSE\n'


def trace_cfg(params):
    return 'CONSTANTS\n Unix = %s\n CookieOK = %s\n Pref <- %s\n' % (
        'TRUE' if params['unix'] else 'FALSE', 'TRUE' if params['cookie'] else 'FALSE',
        'PrefAlt' if params.get('pref') == 'alt' else 'PrefStock')


def replay(chk, g, paths, params, label, skip=()):
    n = 0
    pmap = {'PRejected': ('Rejected', ()), 'POk': ('Ok', ('valid',)), 'PData': ('Data', ('challenge',)),
            'PAgree': ('Agree', ()), 'PError': ('ErrorLine', ())}
    for p in paths:
        acts = [pmap.get(a[0], a) for a in core.path_actions(g, p)]
        states = [{k: v for k, v in g.nodes[i].items() if k not in skip} for i in p]
        drv = []

        def mk(a):
            d = AuthClientDriver(params['unix'], params['cookie'], pref=params.get('pref', 'stock'))
            drv.append(d)
            return d
        failed, dif, steps = core.step_compare(mk, acts, states)
        for d in drv:
            d.close()
        n += 1
        if failed is not None:
            chk.violation('replay %s: after %s impl differs from model in %s' % (
                label, acts[failed - 1][0] if failed else 'Init', ','.join(sorted(set(d[0] for d in dif)))), dict(
                kind='spec->code', module='c07', params=params, model=label, failed_step=failed,
                actions=[[a[0], to_tla(tuple(a[1]))] for a in acts], model_states=[to_tla(s) for s in states],
                diff=[(k, repr(a), repr(b)) for k, a, b in dif],
                impl_states=[(repr(a), {k: repr(v) for k, v in s.items()}) for a, s in steps[-4:]]))
            if len(chk.violations) >= 5:
                break
        elif n <= 1:
            chk.sample({'replayed(%s)' % label: [[a[0]] + list(a[1]) for a in acts]})
    chk.traces += n
    chk.notes[label + '_replayed'] = n


def replay_coalesced(chk, g, paths, params, label):
    """every server line of a behaviour in one read; if the client hangs up on the way, the rest of
    the read (and a trailing OK) must be ignored"""
    n = 0
    for p in paths:
        acts = [a for a in core.path_actions(g, p) if a[0] != 'AfterClose']
        states = [g.nodes[i] for i in p]
        want = [t for st, a in zip(states[1:], core.path_actions(g, p)) if a[0] != 'AfterClose' for t in st['out']]
        final = states[-1]['phase']
        if final == 'closed':
            acts = acts + [('AfterClose', ('ok',))]
        if len(acts) < 2:
            continue
        drv = AuthClientDriver(params['unix'], params['cookie'], pref=params.get('pref', 'stock'))
        try:
            drv.project()
            drv.apply_many(acts)
            got = drv.project()
        except Exception:
            got = {'out': ('exception', core.traceback_str())}
        finally:
            drv.close()
        n += 1
        if tuple(got['out']) != tuple(want) or (final in ('closed', 'begun') and got.get('phase') != final):
            chk.violation('coalesced %s: lines %s in one read: client wrote %r (phase %r), model %r (phase %r)' % (
                label, [a[0] for a in acts], got['out'], got.get('phase'), tuple(want), final),
                dict(kind='spec->code coalesced', module='c07', params=params, actions=[[a[0], list(a[1])] for a in acts]))
            if len(chk.violations) >= 5:
                break
    chk.traces += n
    chk.notes[label + '_coalesced'] = n


def rand_action(rng):
    r = rng.random()
    if r < 0.3:
        return ('Rejected', ())
    if r < 0.42:
        return ('ErrorLine', ())
    if r < 0.55:
        return ('Ok', (rng.choice(['valid', 'valid', 'valid', 'nothex', 'missing', 'spaced', 'odd', 'tabbed']),))
    if r < 0.68:
        return ('Agree', ())
    if r < 0.9:
        return ('Data', (rng.choice(['challenge', 'challenge', 'garbage', 'noid']),))
    return ('Unknown', (rng.choice(['word', 'empty', 'nontext', 'begin', 'endless']),))


def record(rng, unix, ck):
    drv = AuthClientDriver(unix, ck, rng)
    try:
        tr = [({'n': 'Init'}, drv.project())]
        for _ in range(12):
            if drv.t.disconnecting or drv.begun:
                break
            n, a = rand_action(rng)
            drv.apply(n, a)
            rec = {'n': n}
            rec.update(dict(zip(ACTIONS[n], a)))
            tr.append((rec, drv.project()))
        return tr
    finally:
        drv.close()


def bus_pair(chk):
    """the real client against the real built-in bus (both transports): the handshake completes"""
    for unix in (False, True):
        net = fakes.BusNet(unix=unix)
        i = net.add_client()
        try:
            net.run()
            ok = net.ready(i)
        except Exception:
            ok = False
        chk.traces += 1
        if not ok:
            chk.violation('handshake with the built-in bus does not complete (unix=%s)' % unix,
                          dict(kind='pair', module='c07', unix=unix, client_log=repr(net.clients[i][1].log[:8]),
                               bus_log=repr(net.clients[i][3].log[:8])))


def run(tier, seed):
    chk = core.Check('C07', tier, seed)
    rng = random.Random(seed)
    thorough = tier == 'thorough'
    # an application that states its own preference (two mechanisms, another order)
    pa = {'unix': True, 'cookie': True, 'pref': 'alt'}
    res, ga = tlc.dump_graph('AuthClient', 'c.cfg', extra={'c.cfg': client_cfg(True, True, pref='alt')}, timeout=300, workers=4)
    chk.tlc_stats(res, 'AuthClient own preference')
    if not res.ok:
        chk.violation('model: AuthClient(own preference) %s %s' % res.violation, dict(kind='TLC', trace=repr(res.trace[-3:])))
    replay(chk, ga, list(core.edge_cover_paths(ga)), pa, 'own preference edges')
    for unix in (True, False):
        for ck in (True, False):
            params = {'unix': unix, 'cookie': ck}
            label = 'unix=%s cookie=%s' % (unix, ck)
            res, g = tlc.dump_graph('AuthClient', 'c.cfg', extra={'c.cfg': client_cfg(unix, ck)}, timeout=300, workers=4)
            chk.tlc_stats(res, 'AuthClient ' + label)
            if not res.ok:
                chk.violation('model: AuthClient(%s) %s %s' % ((label,) + res.violation), dict(kind='TLC', trace=repr(res.trace[-3:])))
            # finite automaton, full graph: every edge, every path to depth 5/6, random walks
            replay(chk, g, list(core.edge_cover_paths(g)), params, label + ' edges')
            depth = 6 if thorough else 4
            dfs = list(core.paths_dfs(g, depth, max_noop=depth, limit=400000))
            cap = 60000 if thorough else 2500
            if len(dfs) > cap:
                dfs = rng.sample(dfs, cap)
            replay(chk, g, dfs, params, label + ' depth%d' % depth)
            replay_coalesced(chk, g, dfs[:1500 if not thorough else 20000] + list(core.edge_cover_paths(g)), params, label)
            # against the reference server: every subset of accepted mechanisms x answers
            res, gp = tlc.dump_graph('AuthPair', 'p.cfg', extra={'p.cfg': client_cfg(unix, ck, True)}, timeout=300, workers=4)
            chk.tlc_stats(res, 'AuthPair ' + label)
            if not res.ok:
                chk.violation('model: AuthPair(%s) %s %s' % ((label,) + res.violation), dict(kind='TLC', trace=repr(res.trace[-3:])))
            full = []
            for i in gp.init:
                p = [i]
                while gp.succ.get(p[-1]):
                    nxt = [d for l, d in gp.succ[p[-1]] if d != p[-1]]
                    if not nxt:
                        break
                    p.append(nxt[0])
                full.append(p)
            replay(chk, gp, full, params, label + ' pair', skip=('conf',))
            chk.notes[label + ' pair_behaviours'] = len(full)
    bus_pair(chk)
    # code -> spec: random server line streams, lines split across reads
    for unix in (True, False):
        for ck in (True, False):
            params = {'unix': unix, 'cookie': ck}
            batch = []
            for _ in range(200 if thorough else 50):
                try:
                    batch.append(record(rng, unix, ck))
                except Exception:
                    chk.violation('recording: implementation raised', dict(kind='exception', module='c07', trace=core.traceback_str()))
                    break
            core.validate_and_report(chk, 'AuthClient', OBS, ACTIONS, batch, trace_cfg(params), ['BeginSafe', 'InOrderOnce'],
                                     'c07', params, 'random unix=%s cookie=%s' % (unix, ck), nproc=4)
    chk.sample({'recorded': [a for a, s in batch[0]][:6]})
    tr = [list(x) for x in batch[0]]
    tr[1] = (tr[1][0], dict(tr[1][1], out=tr[1][1]['out'] + ('BEGIN',)))
    rej, _ = core.validate_traces('AuthClient', OBS, [[tuple(x) for x in tr]], ACTIONS, cfg_consts=trace_cfg(params), nproc=1)
    chk.canary = {'what': 'a BEGIN appended to a recorded response', 'rejected': bool(rej)}
    chk.assumptions = ['the cookie keyring is a temporary directory (ClientAuthenticator.cookie_dir)',
                       'an uncaught exception escaping dataReceived is projected as close',
                       'auth/nego phase is read from negotiatingUnixFD while the handshake is open (diagnostic for open states; '
                       'begun/closed are observed at the transport)']
    return chk.finish(
        rule='the client automaton is finite: TLC explores it completely for UNIX/non-UNIX transports with readable / '
             'unreadable cookie; every edge and all paths to depth 4 (6) are replayed on a real DBusClientConnection; the '
             'composition with a reference server (all 8 accepted subsets x AGREE/ERROR x EXTERNAL challenge style) is checked '
             'for liveness by TLC and every behaviour replayed; the real built-in bus is used as peer; random line streams '
             'split across reads are validated by TLC',
        exhaustive=True)
