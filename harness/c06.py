"""C06 - the bus authenticates a peer only after a mechanism accepted it.
Spec: spec/AuthServer.tla.  Driver: real BusProtocol + BusAuthenticator over MemoryTransport with
(a) stub mechanisms whose outcome the schedule dictates and (b) the real mechanisms (EXTERNAL with or
without peer credentials, DBUS_COOKIE_SHA1 with a temporary keyring, ANONYMOUS)."""
import binascii
import getpass
import hashlib
import os
import random
import shutil
import tempfile

from zope.interface import implementer

from . import core, tlc, fakes
from .tlaval import to_tla

import txdbus.protocol
from txdbus import authentication, bus as txbus

USER = getpass.getuser().encode()
ACTIONS = {'FirstByte': ('nul',), 'Auth': ('m', 'ir', 'o'), 'Data': ('p', 'o'), 'Begin': (), 'Cancel': (),
           'ErrorLine': (), 'TooLong': (), 'Other': ('kind',), 'AfterClose': ('kind',)}
OBS = ['resp', 'authed', 'closed']      # authed/closed are derived below; see project()
BASE = 'MC_AuthServer'
NONTEXT = [0]


@implementer(authentication.IBusAuthenticationMechanism)
class StubMech:
    next_outcome = 'ok'
    cancels = 0
    name = 'M1'

    def getMechanismName(self):
        return self.name

    def init(self, protocol):
        pass

    queue = []       # outcomes for the next steps when several lines travel in one read

    def step(self, arg):
        o = StubMech.queue.pop(0) if StubMech.queue else StubMech.next_outcome
        return {'ok': ('OK', None), 'cont': ('CONTINUE', b'ch'), 'rej': ('REJECTED', None)}[o]

    def getUserName(self):
        return 'stub'

    def cancel(self):
        StubMech.cancels += 1


class M1(StubMech):
    name = 'M1'


class M2(StubMech):
    name = 'M2'


class TmpCookie(authentication.BusCookieAuthenticator):
    """The real mechanism; only the account database is staged: the user named in the AUTH line has a scratch home
    directory, and the bus runs under an account whose own home (HOME) is elsewhere.  The keyring belongs to the user
    who authenticates - that is where a conforming client of that user looks."""
    home = None
    bus_home = None

    def _step_one(self, username, keyring_dir=None):
        import pwd
        real = pwd.getpwnam

        def staged(name):
            p = real(name)
            return pwd.struct_passwd((p.pw_name, p.pw_passwd, p.pw_uid, p.pw_gid, p.pw_gecos, TmpCookie.home, p.pw_shell))
        saved = os.environ.get('HOME')
        pwd.getpwnam = staged
        os.environ['HOME'] = TmpCookie.bus_home
        try:
            return authentication.BusCookieAuthenticator._step_one(self, username)
        finally:
            pwd.getpwnam = real
            if saved is None:
                os.environ.pop('HOME', None)
            else:
                os.environ['HOME'] = saved


class _Bus:
    uuid = b'c0ffee'


class _Fac:
    bus = _Bus()


class AuthServerDriver:
    def __init__(self, real, creds):
        self.real = real
        self.creds = creds
        fakes.install_clock()
        self.t = fakes.MemoryTransport()
        self.keyring = None
        if real:
            self.home = tempfile.mkdtemp(prefix='txv-keyring-', dir='/dev/shm' if os.path.isdir('/dev/shm') else None)
            os.chmod(self.home, 0o700)
            os.mkdir(os.path.join(self.home, 'bus-account'), 0o700)
            self.keyring = os.path.join(self.home, '.dbus-keyrings')       # created by the bus on first use
            TmpCookie.home = self.home
            TmpCookie.bus_home = os.path.join(self.home, 'bus-account')
            mechs = {b'EXTERNAL': authentication.BusExternalAuthenticator, b'DBUS_COOKIE_SHA1': TmpCookie,
                     b'ANONYMOUS': authentication.BusAnonymousAuthenticator}
        else:
            mechs = {b'M1': M1, b'M2': M2}
        auth_cls = type('Auth', (authentication.BusAuthenticator,), {'authenticators': mechs})
        outer = self

        class Proto(txbus.BusProtocol):
            authenticator = auth_cls

            def connectionAuthenticated(self):
                outer.nauth += 1
                # do not go on into the bus proper
        self.nauth = 0
        self.p = Proto()
        self.p.factory = _Fac()
        self.saved_linux = txdbus.protocol._is_linux
        txdbus.protocol._is_linux = bool(creds)
        self.p.makeConnection(self.t)
        self.offered = set(mechs)
        self.challenge = None
        self.first = True
        self.exc = None

    def close(self):
        txdbus.protocol._is_linux = self.saved_linux
        if self.keyring:
            shutil.rmtree(self.home, ignore_errors=True)

    def feed(self, data, splits=None):
        before = len(self.t.log)
        try:
            if splits:
                pos = 0
                for c in sorted(set(splits)):
                    if 0 < c < len(data):
                        self.p.dataReceived(data[pos:c])
                        pos = c
                self.p.dataReceived(data[pos:])
            else:
                self.p.dataReceived(data)
        except Exception as ex:          # an uncaught exception makes Twisted drop the connection
            self.exc = ex
            self.t.loseConnection()
        self.last = self.t.log[before:]

    def line_bytes(self, name, args):
        user = USER
        if name == 'FirstByte':
            return b'\0' if args[0] else b'A'
        if name == 'Auth':
            m, ir, o = args
            mb = {'none': b'', 'unknown': b'NOPE'}.get(m, m.encode())
            line = b'AUTH' + (b' ' + mb if mb else b'')
            if m == 'unknown' and ir == 'none' and o == 'ok':
                # as long as a line may be (16384 bytes): still a line, answered like any other
                line = b'AUTH NOPE ' + b'A' * (16384 - 10)
            if ir == 'user':
                line += b' ' + binascii.hexlify(user)
            elif ir == 'baduser':
                line += b' ' + binascii.hexlify(b'no_such_user_xyz')
            elif ir == 'badhex':
                # not hex at all, or hex of bytes that are not text
                line += b' zz%' if (len(self.t.log) % 2) else b' 636166c3a9ff'
        elif name == 'Data':
            p, o = args
            if p == 'empty':
                line = b'DATA'
            elif p == 'badhex':
                line = b'DATA xyz' if (len(self.t.log) % 2) else b'DATA ff'
            else:
                line = b'DATA ' + binascii.hexlify(self.cookie_response(p == 'right'))
        elif name == 'Begin':
            line = b'BEGIN'
        elif name == 'Cancel':
            line = b'CANCEL'
        elif name == 'ErrorLine':
            line = b'ERROR "x"'
        elif name == 'TooLong':
            line = b'AUTH ' + b'A' * 16400
        elif name == 'Other':
            if args[0] == 'nontext':
                # bytes that are not text - among them lines that would spell a command if those bytes were dropped
                NONTEXT[0] += 1
                line = [b'\xff\xfe AUTH', b'BEG\xc3\xa9IN', b'\xffAUTH ANONYMOUS', b'BEGIN\x80', b'CAN\x80CEL',
                        b'DA\xe9TA 00', b'\xc3\xa9BEGIN'][NONTEXT[0] % 7]
            else:
                if args[0] == 'unknown':
                    # words a peer has no business sending - among them the commands of the SERVER side of the protocol
                    NONTEXT[0] += 1
                    line = [b'FOO bar', b'OK', b'OK 1234deadbeef', b'REJECTED EXTERNAL', b'AGREE_UNIX_FD', b'begin', b'Auth ANONYMOUS',
                            b'OK_', b'STEP'][NONTEXT[0] % 9]
                else:
                    line = {'negotiate': b'NEGOTIATE_UNIX_FD', 'empty': b''}[args[0]]
        elif name == 'AfterClose':
            if args[0] == 'begin':
                line = b'BEGIN'
            else:
                from txdbus import message
                hello = message.MethodCallMessage('/org/freedesktop/DBus', 'Hello', interface='org.freedesktop.DBus',
                                                  destination='org.freedesktop.DBus').rawMessage
                return b'AUTH ANONYMOUS\r\nBEGIN\r\n' + hello
        else:
            raise ValueError(name)
        return line + b'\r\n'

    def apply(self, name, args, splits=None):
        if name in ('Auth', 'Data'):
            StubMech.next_outcome = args[-1]
            StubMech.queue = []
        if name == 'FirstByte':
            self.first = False
        self.feed(self.line_bytes(name, args), splits if name != 'FirstByte' else None)

    def apply_chunk(self, acts, outcomes):
        """several lines in ONE read; outcomes = the stub outcomes of the steps the model says happen"""
        StubMech.queue = list(outcomes)
        self.feed(b''.join(self.line_bytes(n, a) for n, a in acts))
        StubMech.queue = []

    def cookie_response(self, right):
        """the DATA payload a conforming client computes from the last challenge (independent of
        txdbus: sha1(server_challenge:client_challenge:cookie))"""
        try:
            ctx, cid, sch = self.challenge.split()
        except Exception:
            return b'aaaa bbbb'            # no cookie challenge outstanding: any two tokens
        cookie = b'00'
        try:
            with open(os.path.join(self.keyring, ctx.decode()), 'rb') as f:
                for ln in f:
                    k_id, k_time, k_cookie = ln.split()
                    if k_id == cid:
                        cookie = k_cookie
        except OSError:
            pass
        cch = binascii.hexlify(hashlib.sha1(b'client').digest())
        if not right:
            cookie = cookie[::-1] + b'0'
        resp = binascii.hexlify(hashlib.sha1(b':'.join([sch, cch, cookie])).digest())
        return cch + b' ' + resp

    def project(self):
        resp = []
        for e in getattr(self, 'last', []):
            if e[0] == 'bytes':
                for ln in e[1].split(b'\r\n'):
                    if not ln:
                        continue
                    w = ln.split(b' ')
                    k = w[0].decode('ascii', 'replace')
                    if k == 'REJECTED':
                        if set(w[1:]) != self.offered:
                            k = 'REJECTED(wrong mechanism list %r)' % (w[1:],)
                    elif k == 'OK':
                        if w[1:] != [b'c0ffee']:
                            k = 'OK(wrong guid)'
                    elif k == 'DATA':
                        try:
                            self.challenge = binascii.unhexlify(w[1]) if len(w) > 1 else b''
                        except Exception:
                            k = 'DATA(not hex)'
                    elif k != 'ERROR':
                        k = 'unexpected:' + k
                    resp.append(k)
            elif e[0] == 'close':
                resp.append('close')
            elif e[0] == 'write-after-close':
                resp.append('wrote %d bytes after close' % len(e[1]))
        self.last = []
        a = getattr(self.p, '_dbusAuth', None)
        closed = bool(self.t.disconnecting)
        st = {'resp': tuple(resp)}
        # the observable part of `st`
        if self.nauth:
            st['st'] = 'Authed' if self.nauth == 1 else 'Authed x%d' % self.nauth
        elif closed:
            st['st'] = 'Closed'
        elif a is not None and isinstance(getattr(a, 'state', None), str):
            st['st'] = {'WaitingForAuth': 'WaitAuth', 'WaitingForData': 'WaitData',
                        'WaitingForBegin': 'WaitBegin'}.get(a.state, a.state)
        if a is not None:
            if isinstance(getattr(a, 'reject_count', None), int) and not closed:
                st['diag_rejects'] = a.reject_count
        if self.real and self.keyring:
            files = [f for f in (os.listdir(self.keyring) if os.path.isdir(self.keyring) else []) if not f.endswith('.lock')]
            st['diag_cookie_files'] = len(files)
        return st


def make_driver(params, acts):
    return AuthServerDriver(params['real'], params['creds'])


replay_file = core.replay_file


def cfg_name(real, creds):
    return 'MC_AuthServer_stub.cfg' if not real else 'MC_AuthServer_real_%s.cfg' % ('TRUE' if creds else 'FALSE')


def trace_cfg(params):
    real, creds = params['real'], params['creds']
    mechs = '{"EXTERNAL", "DBUS_COOKIE_SHA1", "ANONYMOUS"}' if real else '{"M1", "M2"}'
    return 'CONSTANTS\n Mechs = %s\n Real = %s\n Creds = %s\n MaxRejects = 5\n' % (
        mechs, 'TRUE' if real else 'FALSE', 'TRUE' if creds else 'FALSE')


def replay(chk, g, paths, params, label):
    n = 0
    for p in paths:
        acts = core.path_actions(g, p)
        states = [g.nodes[i] for i in p]
        drv = []

        def mk(a):
            d = AuthServerDriver(params['real'], params['creds'])
            drv.append(d)
            return d
        failed, dif, steps = core.step_compare(mk, acts, states)
        for d in drv:
            d.close()
        n += 1
        if failed is not None:
            chk.violation('replay %s: after %s impl differs from model in %s' % (
                label, acts[failed - 1][0] if failed else 'Init', ','.join(sorted(set(d[0] for d in dif)))), dict(
                kind='spec->code', module='c06', params=params, model=label, failed_step=failed,
                actions=[[a[0], to_tla(tuple(a[1]))] for a in acts], model_states=[to_tla(s) for s in states],
                diff=[(k, repr(a), repr(b)) for k, a, b in dif],
                impl_states=[(repr(a), {k: repr(v) for k, v in s.items()}) for a, s in steps[-4:]]))
            if len(chk.violations) >= 5:
                break
        elif n <= 2:
            chk.sample({'replayed(%s)' % label: [[a[0]] + list(a[1]) for a in acts]})
    chk.traces += n
    chk.notes[label + '_replayed'] = n


def steps_mech(state, name, args, real):
    if name == 'Auth':
        mechs = ('EXTERNAL', 'DBUS_COOKIE_SHA1', 'ANONYMOUS') if real else ('M1', 'M2')
        return state['st'] == 'WaitAuth' and args[0] in mechs and args[1] != 'badhex'
    if name == 'Data':
        return state['st'] == 'WaitData' and args[0] != 'badhex'
    return False


def replay_coalesced(chk, g, paths, params, label, rng):
    """spec -> code with several lines per read (the NUL byte included); whatever follows a fatal
    line in the same read must be ignored"""
    n = 0
    for p in paths:
        acts = core.path_actions(g, p)
        states = [g.nodes[i] for i in p]
        # append post-close traffic to the read that carried the fatal line
        if states[-1]['st'] == 'Closed' and acts and acts[-1][0] != 'AfterClose':
            acts.append(('AfterClose', (rng.choice(['login', 'begin']),)))
            states.append(dict(states[-1], resp=()))
        # chunking: a new read before every cookie answer (it depends on the challenge just received)
        chunks = []
        cur = []
        for i, a in enumerate(acts):
            if cur and ((a[0] == 'Data' and a[1][0] in ('right', 'wrong')) or
                        (rng.random() < 0.3 and a[0] != 'AfterClose')):
                chunks.append(cur)
                cur = []
            cur.append(i)
        if cur:
            chunks.append(cur)
        drv = AuthServerDriver(params['real'], params['creds'])
        bad = None
        try:
            for ch in chunks:
                outs = [acts[i][1][-1] for i in ch if steps_mech(states[i], acts[i][0], acts[i][1], params['real'])]
                drv.apply_chunk([acts[i] for i in ch], outs)
                got = drv.project()
                want_resp = tuple(r for i in ch for r in states[i + 1]['resp'])
                want_st = states[ch[-1] + 1]['st']
                if got['resp'] != want_resp or got.get('st', want_st) != want_st:
                    bad = (ch, got, want_resp, want_st)
                    break
        except Exception:
            bad = ('exception', core.traceback_str(), None, None)
        finally:
            drv.close()
        n += 1
        if bad:
            chk.violation('coalesced %s: lines %s in one read: impl %r, model resp %r st %r' % (
                label, [acts[i][0] for i in bad[0]] if bad[0] != 'exception' else 'exception', bad[1], bad[2], bad[3]),
                dict(kind='spec->code coalesced', module='c06', params=params,
                     actions=[[a[0], to_tla(tuple(a[1]))] for a in acts], chunk=bad[0], impl=repr(bad[1]),
                     model_resp=repr(bad[2]), model_st=bad[3]))
            if len(chk.violations) >= 5:
                break
    chk.traces += n
    chk.notes[label + '_coalesced'] = n


def enabled_actions(rng, real):
    mechs = ['EXTERNAL', 'DBUS_COOKIE_SHA1', 'ANONYMOUS'] if real else ['M1', 'M2']
    r = rng.random()
    o = rng.choice(['ok', 'cont', 'rej'])
    if r < 0.4:
        return ('Auth', (rng.choice(mechs + ['none', 'unknown']), rng.choice(['none', 'user', 'baduser', 'badhex', 'user']), o))
    if r < 0.65:
        return ('Data', (rng.choice(['empty', 'right', 'wrong', 'badhex']), o))
    if r < 0.72:
        return ('Begin', ())
    if r < 0.8:
        return ('Cancel', ())
    if r < 0.88:
        return ('ErrorLine', ())
    if r < 0.9:
        return ('TooLong', ())
    return ('Other', (rng.choice(['negotiate', 'unknown', 'empty', 'nontext']),))


def real_outcome(drv, name, args):
    """for real mechanisms the outcome parameter is determined: compute it like the spec does so
    that the recorded action carries the right `o`"""
    return None


def record(rng, real, creds, nsteps):
    """code -> spec: random line sequences (split across reads at random) on a real server"""
    drv = AuthServerDriver(real, creds)
    try:
        tr = [({'n': 'Init'}, drv.project())]
        acts = [('FirstByte', (rng.random() < 0.95,))]
        for _ in range(nsteps):
            acts.append(enabled_actions(rng, real))
        model_st = 'WaitAuth'
        for name, args in acts:
            if drv.t.disconnecting or drv.nauth:
                break
            splits = [rng.randrange(1, 30) for _ in range(rng.choice([0, 0, 1, 2]))] if name != 'FirstByte' else None
            drv.apply(name, args, splits)
            st = drv.project()
            rec = {'n': name}
            rec.update(dict(zip(ACTIONS[name], args)))
            if real and name in ('Auth', 'Data'):
                # o is not chosen by the environment here; record what the response implies so that
                # TLC checks it against RealOutcome (OutcomeAllowed)
                r = st['resp']
                rec['o'] = 'ok' if r == ('OK',) else 'cont' if r == ('DATA',) else 'rej'
            tr.append((rec, st))
        return tr
    finally:
        drv.close()


def run(tier, seed):
    chk = core.Check('C06', tier, seed)
    rng = random.Random(seed)
    thorough = tier == 'thorough'
    for real, creds in ((False, False), (True, True), (True, False)):
        params = {'real': real, 'creds': creds}
        label = 'stub' if not real else ('real+creds' if creds else 'real-nocreds')
        res, g = tlc.dump_graph('AuthServer', cfg_name(real, creds), timeout=600)
        chk.tlc_stats(res, 'AuthServer ' + label)
        if not res.ok:
            chk.violation('model: AuthServer(%s) %s %s' % ((label,) + res.violation), dict(kind='TLC', trace=repr(res.trace[-3:])))
        chk.notes[label + '_graph'] = [len(g.nodes), g.nedges]
        # the automaton is finite: the graph covers all line sequences of any length.
        # every edge (parallel edges = same states, other line contents) lies on one of the tours
        replay(chk, g, list(core.edge_cover_tours(g, 40)), params, label + '-edges')
        depth = 4 if thorough else 3
        dfs = list(core.paths_dfs(g, depth, max_noop=depth, limit=400000))
        cap = 60000 if thorough else 1200
        if len(dfs) > cap:
            dfs = rng.sample(dfs, cap)
        replay(chk, g, dfs, params, label + '-depth%d' % depth)
        replay(chk, g, list(core.random_walks(g, 3000 if thorough else 150, 14, rng)), params, label + '-walks')
        replay_coalesced(chk, g, list(core.random_walks(g, 6000 if thorough else 400, 12, rng)) +
                         list(core.edge_cover_tours(g, 12)), params, label, rng)
        # acceptable credentials are accepted (reachability in the model's own graph, then on the code)
        if real:
            want = {'ANONYMOUS': [('Auth', ('ANONYMOUS', 'none', 'ok')), ('Begin', ())],
                    'DBUS_COOKIE_SHA1': [('Auth', ('DBUS_COOKIE_SHA1', 'user', 'cont')), ('Data', ('right', 'ok')), ('Begin', ())]}
            if creds:
                want['EXTERNAL'] = [('Auth', ('EXTERNAL', 'none', 'cont')), ('Data', ('empty', 'ok')), ('Begin', ())]
            for mname, acts in want.items():
                acts = [('FirstByte', (True,))] + acts
                try:
                    from .framing import walk
                    ids = walk(g, acts)
                    ok_model = g.nodes[ids[-1]]['st'] == 'Authed'
                except KeyError:
                    ok_model = False
                if not ok_model:
                    chk.violation('model: conforming %s client is not accepted by AuthServer.tla' % mname, dict(kind='TLC'))
                    continue
                replay(chk, g, [ids], params, label + '-accept-' + mname)
    # code -> spec: long random sequences crossing the rejection limit, lines split across reads
    for real, creds in ((False, False), (True, True), (True, False)):
        params = {'real': real, 'creds': creds}
        batch = []
        for _ in range(300 if thorough else 60):
            try:
                batch.append(record(rng, real, creds, rng.choice([6, 12, 25])))
            except Exception:
                chk.violation('recording: implementation raised', dict(kind='exception', module='c06', trace=core.traceback_str()))
                break
        core.validate_and_report(chk, 'AuthServer', ['resp', 'st'], ACTIONS, batch, trace_cfg(params),
                                 ['Safety', 'Limit', 'AcceptedMeansWaitBegin'], 'c06', params, 'random real=%s creds=%s' % (real, creds),
                                 nproc=6)
    chk.sample({'recorded': [a for a, s in batch[0]][:6]})
    # the 16 KiB boundary: a line of exactly 16384 bytes is not "longer than 16 KiB" - it is an ordinary line, wherever
    # the reads cut it (between its CR and its LF too); one byte more is too long.  The model's Other / TooLong
    for nbytes, want_closed in ((16384, False), (16385, True)):
        line = b'FOO ' + b'x' * (nbytes - 4)
        for cut in (None, nbytes // 2, nbytes, nbytes + 1):          # nbytes + 1: between CR and LF
            drv = AuthServerDriver(False, False)
            try:
                drv.apply('FirstByte', (True,))
                drv.feed(line + b'\r\n', [cut] if cut else None)
                st = drv.project()
            finally:
                drv.close()
            chk.traces += 1
            ok = (st.get('st') == 'Closed') if want_closed else (st.get('st') == 'WaitAuth' and tuple(st.get('resp', ())) == ('ERROR',))
            if not ok:
                chk.violation('a line of %d bytes%s: %s, state %s' % (
                    nbytes, '' if cut is None else ' cut after byte %d' % cut,
                    'answered %r' % (tuple(st.get('resp', ())),), st.get('st')),
                    dict(kind='spec->code line length boundary', module='c06', nbytes=nbytes, cut=cut, got=repr(st)))
    # several connections of one user sharing the keyring: cookie ids, lookups, deletion, expiry
    from . import cookiejar
    cookiejar.stage(chk, rng, thorough)
    # canary: a REJECTED recorded as OK
    params = {'real': False, 'creds': False}
    drv = AuthServerDriver(False, False)
    tr = [({'n': 'Init'}, drv.project())]
    for n_, a_ in (('FirstByte', (True,)), ('Auth', ('unknown', 'none', 'ok')), ('Begin', ())):
        drv.apply(n_, a_)
        rec = {'n': n_}
        rec.update(dict(zip(ACTIONS[n_], a_)))
        tr.append((rec, drv.project()))
    drv.close()
    tr[2] = (tr[2][0], dict(tr[2][1], resp=('OK',)))
    rej, _ = core.validate_traces('AuthServer', ['resp', 'st'], [tr], ACTIONS, cfg_consts=trace_cfg(params), nproc=1)
    chk.canary = {'what': 'a REJECTED answer recorded as OK', 'rejected': bool(rej)}
    chk.assumptions = ['stub mechanisms follow the outcome dictated by the schedule; real mechanisms run with a temporary '
                       'keyring and a fake SO_PEERCRED', 'uncaught exceptions escaping dataReceived are projected as close',
                       'st is observed through responses / loseConnection / connectionAuthenticated; the authenticator state '
                       'name is used only while the connection is open']
    return chk.finish(
        rule='the server automaton is finite: TLC explores it completely (stub and real mechanism semantics, with and '
             'without peer credentials); every edge, all paths to depth 3 (4) and long random walks are replayed on a real '
             'BusProtocol/BusAuthenticator; random line sequences split across reads are recorded and validated by TLC',
        exhaustive=True)
