"""C19 - signatures split into complete types; inferred variant types always encode.
Spec: spec/Signature.tla."""
import random

from . import fakes  # noqa: F401  (installs the quiet log observer, repo path)
from . import core, tlc, wirecodec as wc
from txdbus import marshal, interface

OBS = ['mode', 'ts', 'sigv', 'parts', 'shape', 'rt']
CFG = ('SPECIFICATION Spec\nCONSTANTS\n  MaxSig = %d\n  Depth = %d\nINVARIANT Concat\nINVARIANT EachComplete\n'
       'INVARIANT ParserAgrees\nINVARIANT DocumentedInferenceOK\nCHECK_DEADLOCK FALSE\n')
INTS = {'i32': [7, -2 ** 31, 2 ** 31 - 1, 0, -1], 'i64': [2 ** 40, -2 ** 63, 2 ** 63 - 1, 2 ** 31, -2 ** 31 - 1],
        'u64': [2 ** 63, 2 ** 64 - 1]}
WRAPV = {'y': [marshal.Byte(200), marshal.Byte(0)], 'b': [marshal.Boolean(True), marshal.Boolean(False)],
         'n': [marshal.Int16(-2 ** 15), marshal.Int16(5)], 'q': [marshal.UInt16(65535)],
         'i': [marshal.Int32(-2 ** 31), marshal.Int32(9)], 'u': [marshal.UInt32(2 ** 32 - 1)],
         'x': [marshal.Int64(-2 ** 63), marshal.Int64(3)], 't': [marshal.UInt64(2 ** 64 - 1)],
         'g': [marshal.Signature('a{sv}')], 'o': [marshal.ObjectPath('/a/b')]}


def build(sh, k):
    """concrete Python value of a shape; k rotates the boundary values / keeps dict keys distinct"""
    t = sh[0]
    if t == 'bool':
        return bool(k % 2 == 0)
    if t == 'int':
        return INTS[sh[1]][k % len(INTS[sh[1]])]
    if t == 'float':
        return [1.5, -0.0, 1e300, float('inf')][k % 4]
    if t == 'str':
        return ['é', '', 'abc', 'x' * 20, '\ufeffmark first'][k % 5] + ('#%d' % k if k >= 1000 else '')
    if t == 'bytes':
        return bytearray([b'ab', b'', bytes(range(5))][k % 3])
    if t == 'wrap':
        return WRAPV[sh[1]][k % len(WRAPV[sh[1]])]
    if t == 'list':
        return [build(e, k + i) for i, e in enumerate(sh[1])]
    if t == 'tuple':
        items = [build(e, k + i) for i, e in enumerate(sh[1])]
        if k % 3 == 0:
            # the application put ONE list / dict / tuple object into several fields (a row used twice): sharing an
            # object is not a cycle
            first = {}
            for i, e in enumerate(sh[1]):
                if e[0] in ('list', 'tuple', 'dict'):
                    if e in first:
                        items[i] = items[first[e]]
                    else:
                        first[e] = i
        return tuple(items)
    if t == 'dict':
        d = {}
        for i, (ks, vs) in enumerate(sh[1]):
            key = ('k%d' % i) if ks[0] == 'str' else (0.5 + i) if ks[0] == 'float' else 10 + i
            d[key] = build(vs, k + i)
        return d
    raise ValueError(sh)


def normal(v):
    if isinstance(v, (list, tuple)):
        return [normal(x) for x in v]
    if isinstance(v, bytearray):
        return list(v)
    if isinstance(v, dict):
        return {k: normal(x) for k, x in v.items()}
    return v


def infer_case(sh, k):
    """run the implementation on one shape: returns (sig chars or None, roundtrip ok, detail)"""
    val = build(sh, k)
    try:
        sg = marshal.sigFromPy(val)
    except marshal.MarshallingError as ex:
        return ('!',), False, 'sigFromPy refused: %s' % ex
    except Exception as ex:
        return ('?',), False, 'sigFromPy raised %s' % type(ex).__name__
    if not isinstance(sg, str):
        return ('?',), False, 'sigFromPy returned %r' % (sg,)
    try:
        n, chunks = marshal.marshal('v', [val])
        used, out = marshal.unmarshal('v', b''.join(chunks))
        rt = normal(out[0]) == normal(val) and used == n
        detail = '' if rt else 'decoded %r' % (out[0],)
        if rt and k % 2:
            # ... and in the other byte order
            n, chunks = marshal.marshal('v', [val], 0, False)
            used, out = marshal.unmarshal('v', b''.join(chunks), 0, False)
            rt = normal(out[0]) == normal(val) and used == n
            detail = '' if rt else 'big-endian: decoded %r' % (out[0],)
    except Exception as ex:
        rt, detail = False, 'variant round trip raised %s: %s' % (type(ex).__name__, str(ex)[:60])
    return tuple(sg) if all(c in 'ybnqiuxtdsogav(){}h' for c in sg) else ('?',), rt, detail


def rand_shape(rng, depth):
    r = rng.random()
    if depth <= 0 or r < 0.45:
        b = rng.choice(['bool', 'int', 'int', 'float', 'str', 'bytes', 'wrap'])
        if b == 'int':
            return ('int', rng.choice(['i32', 'i32', 'i64', 'u64']))
        if b == 'wrap':
            return ('wrap', rng.choice('ybnqiuxtgo'))
        return (b,)
    if r < 0.65:
        return ('list', tuple(rand_shape(rng, depth - 1) for _ in range(rng.choice([0, 1, 2, 3, 4]))))
    if r < 0.85:
        return ('tuple', tuple(rand_shape(rng, depth - 1) for _ in range(rng.choice([0, 1, 1, 2, 2, 3]))))
    ks = rng.choice([('str',), ('int', 'i32'), ('float',)])
    return ('dict', tuple((ks, rand_shape(rng, depth - 1)) for _ in range(rng.choice([0, 1, 2, 3]))))


def run(tier, seed):
    chk = core.Check('C19', tier, seed)
    rng = random.Random(seed)
    thorough = tier == 'thorough'
    maxsig, depth = (8, 2) if thorough else (7, 1)
    res, states = tlc.dump_states('Signature', 's.cfg', extra={'s.cfg': CFG % (maxsig, depth)}, timeout=1500)
    chk.tlc_stats(res, 'Signature MaxSig=%d Depth=%d' % (maxsig, depth))
    if not res.ok:
        chk.violation('model: Signature %s %s' % res.violation, dict(kind='TLC', trace=repr(res.trace[-1:])))
    nbad = 0
    infer_tr = []
    nsplit = 0
    for i, st in enumerate(states):
        if st['mode'] == 'split':
            nsplit += 1
            sg = ''.join(st['sigv'])
            want = [''.join(p) for p in st['parts']]
            try:
                got = list(marshal.genCompleteTypes(sg))
            except Exception as ex:
                got = 'raised %s' % type(ex).__name__
            ok = got == want
            if ok:
                try:
                    m = interface.Method('M', arguments=sg, returns=sg)
                    interface.DBusInterface('org.verif.I%d' % (i % 7), m, noRegister=True)
                    ok = m.nargs == len(want) and m.nret == len(want)
                    if not ok:
                        got = 'Method.nargs=%r nret=%r' % (m.nargs, m.nret)
                except Exception as ex:
                    ok, got = False, 'DBusInterface raised %s' % type(ex).__name__
            if not ok:
                nbad += 1
                if nbad <= 5:
                    chk.violation('split of %r gave %r, grammar says %r' % (sg, got, want),
                                  dict(kind='spec->code', module='c19', sig=sg, got=repr(got), want=want))
            chk.traces += 1
            if nsplit % 3000 == 5:
                chk.sample({'split': sg, 'pieces': want})
        else:
            sh = st['shape']
            for k in (i, i + 1):
                sg, rt, detail = infer_case(sh, k)
                infer_tr.append(({'mode': 'infer', 'ts': (), 'sigv': sg, 'parts': (), 'shape': sh, 'rt': rt}, detail, k))
    chk.notes['split_cases'] = nsplit
    chk.notes['shape_cases'] = len(infer_tr)
    # random beyond the model
    split_tr = []
    n = 12000 if thorough else 300
    structural = ['((y)(y))', 'a((y)(y))', '(i(s(y)(y))d)', '((y)(y)(y))', 'a{s(y)}a{s(y)}', '(a{sv}a{sv})', '((a{s(y)})(a(y)))',
                  '(((y))((y)))', 'a(a(y)a(y))', '(y(y)y(y))', 'aa{y(a{ys})}(a{ys}a{ys})']
    # the nesting limits of the specification, exactly and one short of them: 32 structs, 32 arrays, both, dict entries
    for d in (30, 31, 32):
        structural += ['(' * d + 'y' + ')' * d, 'a' * d + 'y', 'a' * d + '(' * d + 'y' + ')' * d, '(' * d + 'i' + ')' * d + 's',
                       'a{y' * min(d, 31) + 'y' + '}' * min(d, 31), 'y' + '(' * d + 'ai' + ')' * d]
    for sg in structural:
        try:
            got = tuple(tuple(p) for p in marshal.genCompleteTypes(sg))
        except Exception as ex:
            got = (('raised', type(ex).__name__),)
        split_tr.append(({'mode': 'split', 'ts': (), 'sigv': tuple(sg), 'parts': got, 'shape': (), 'rt': True}, sg, 0))
    for i in range(n):
        tsq = [wc.rand_type(rng, rng.choice([1, 2, 3, 5])) for _ in range(rng.randint(0, 6))]
        if i % 10 == 0:
            tsq = [wc.deep_type(rng, rng.choice('a('), rng.choice([10, 31]))] + tsq[:2]
        sg = ''.join(wc.sig(t) for t in tsq)
        if len(sg) > 255:
            continue
        try:
            got = tuple(tuple(p) for p in marshal.genCompleteTypes(sg))
        except Exception as ex:
            got = (('raised', type(ex).__name__),)
        split_tr.append(({'mode': 'split', 'ts': (), 'sigv': tuple(sg), 'parts': got, 'shape': (), 'rt': True}, sg, 0))
    for i in range(4 * n):
        sh = rand_shape(rng, 3)
        sg, rt, detail = infer_case(sh, 1000 + i)
        infer_tr.append(({'mode': 'infer', 'ts': (), 'sigv': sg, 'parts': (), 'shape': sh, 'rt': rt}, detail, 1000 + i))
    # wide values: inferred signatures of 127, 128, 200 and 255 characters (the length travels in ONE byte)
    for j, width in enumerate((125, 126, 198, 253)):
        for elem in (('int', 'i32'), ('str',)):
            sh = ('tuple', (elem,) * width)
            sg, rt, detail = infer_case(sh, 900 + j)
            infer_tr.append(({'mode': 'infer', 'ts': (), 'sigv': sg, 'parts': (), 'shape': sh, 'rt': rt}, detail, 900 + j))
    # one container object in several fields of a struct; dictionaries keyed by floating-point numbers
    row = ('list', (('int', 'i32'), ('int', 'i32')))
    opts = ('dict', ((('str',), ('int', 'i32')),))
    for sh in (('tuple', (row, row)), ('tuple', (row, ('str',), row)), ('tuple', (opts, opts)), ('list', (('tuple', (row, row)),)),
               ('dict', ((('float',), ('str',)), (('float',), ('str',)))), ('list', (('dict', ((('float',), ('int', 'i32')),)),)),
               ('tuple', (('dict', ((('float',), row),)), ('str',)))):
        sg, rt, detail = infer_case(sh, 999)
        infer_tr.append(({'mode': 'infer', 'ts': (), 'sigv': sg, 'parts': (), 'shape': sh, 'rt': rt}, detail, 999))
    cc = 'CONSTANTS\n MaxSig = 1\n Depth = 1\n'
    for label, batch, pred in (('split', split_tr, 'TraceSplit'), ('infer', infer_tr, 'TraceInfer')):
        traces = [[({'n': 'Init'}, st)] for st, _, _ in batch]
        rej, stt = core.validate_traces('Signature', OBS, traces, {}, cfg_consts=cc, initpred=pred, nproc=12)
        chk.states += stt['states']
        chk.transitions += stt['transitions']
        chk.traces += len(traces) - len(rej)
        for ti, _, _ in rej[:5]:
            st, detail, k = batch[ti]
            if label == 'split':
                chk.violation('split of %r gave %r: rejected by the grammar' % (detail, [''.join(p) for p in st['parts']]),
                              dict(kind='code->spec', module='c19', sig=detail, parts=repr(st['parts'])))
            else:
                chk.violation('value %r: inferred %r, round trip %s (%s)' % (
                    repr(build(st['shape'], k))[:80], ''.join(st['sigv']), st['rt'], detail),
                    dict(kind='code->spec', module='c19', shape=repr(st['shape']), value=repr(build(st['shape'], k)),
                         inferred=''.join(st['sigv']), roundtrip=st['rt'], detail=detail))
    chk.sample({'shape': repr(infer_tr[7][0]['shape']), 'inferred': ''.join(infer_tr[7][0]['sigv'])})
    # canary
    st = dict(infer_tr[0][0])
    st['sigv'] = st['sigv'] + ('i',)
    rej, _ = core.validate_traces('Signature', OBS, [[({'n': 'Init'}, st)]], {}, cfg_consts=cc, initpred='TraceInfer', nproc=1)
    chk.canary = {'what': 'a recorded inferred signature extended to two complete types', 'rejected': bool(rej)}
    chk.assumptions = ['part 1 enumerates signatures over the basic codes y, s, v (structure is exhaustive, the choice of basic '
                       'code is representative)', 'NaN, strings with NUL and heterogeneous dict keys are outside the claim',
                       'equality after decoding: tuples as lists, bytearrays as lists of ints, wrappers as plain values']
    return chk.finish(
        rule='every valid signature up to %d characters (grammar enumeration by TLC, cross-checked against an independent '
             'parser) is split by the implementation; every value shape to depth %d (and random ones to depth 3) is '
             'built, its inferred signature and variant round trip judged by TLC (single complete type, wrapper exactness, '
             'fit and round trip inside the claim)' % (maxsig, depth + 1),
        exhaustive=True)
