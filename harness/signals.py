"""Part of C12: signals end to end (spec/Signals.tla).  Real clients on the real built-in bus over in-memory
links (fakes.BusNet): emitters export an object whose interface declares the signals and call emitSignal;
subscribers hold proxies (explicit interface) for the target's bus name and use notifyOnSignal /
cancelSignalNotification; every action is followed by delivery of everything in flight."""
from . import core, tlc, fakes

from txdbus import objects, interface, message

ACTIONS = {'Subscribe': ('c', 's'), 'Cancel': ('c', 'i'), 'Emit': ('e', 's'), 'EmitMisfit': ('e', 's')}
OBS = ['subs', 'nsub', 'nemit', 'got']
BASE = 'Signals'
SUBS = ['a', 'b']
EMITTERS = ['x', 'y']
IFACE = interface.DBusInterface('org.ex.Sig', interface.Signal('S1', 's'), interface.Signal('S2', 'i'), noRegister=True)
# the same signal names exist on a second interface of the object: the subscription names the interface
OTHER = interface.DBusInterface('org.ex.Other', interface.Signal('S1', 'i'), noRegister=True)


class Obj(objects.DBusObject):
    dbusInterfaces = [OTHER, IFACE]


class SignalsDriver:
    def __init__(self):
        self.net = fakes.BusNet()
        self.idx = {}
        for n in SUBS + EMITTERS:
            self.idx[n] = self.net.add_client()
        self.net.run()
        for n in SUBS + EMITTERS:
            assert self.net.ready(self.idx[n]), n
        self.obj = {}
        for j, e in enumerate(EMITTERS):
            c = self.conn(e)
            self.obj[e] = Obj('/sig')
            c.exportObject(self.obj[e])
            r = []
            c.requestBusName('org.ex.E%s' % e).addBoth(r.append)
            self.net.run()
            assert r == [1], r
        self.proxy = {}
        for s in SUBS:
            got = []
            self.conn(s).getRemoteObject('org.ex.Ex', '/sig', interfaces=[OTHER, IFACE]).addBoth(got.append)
            self.net.run()
            assert got and isinstance(got[0], objects.RemoteDBusObject), got
            self.proxy[s] = got[0]
        self.subs = {s: [] for s in SUBS}        # [(model id, signal, rule id)]
        self.nsub = 0
        self.nemit = 0
        self.got = {s: [] for s in SUBS}

    def conn(self, n):
        return self.net.clients[self.idx[n]][0]

    def apply(self, name, args):
        for s in SUBS:
            self.got[s] = []
        if name == 'Subscribe':
            c, sg = args
            self.nsub += 1
            mid = self.nsub

            def cb(*a, mid=mid, sg=sg, c=c):
                # the argument carries who emitted it and which emission it was
                if len(a) != 1:
                    self.got[c].append({'id': mid, 'sig': sg, 'from': '?%d args' % len(a), 'k': -1})
                    return
                v = a[0]
                if sg == 'S1' and isinstance(v, str) and ':' in v:
                    e, k = v.split(':')
                    k = int(k)
                elif sg == 'S2' and isinstance(v, int):
                    e, k = EMITTERS[v % 10], v // 10
                else:
                    e, k = '?' + repr(v), -1
                self.got[c].append({'id': mid, 'sig': sg, 'from': e, 'k': k})
            res = []
            self.proxy[c].notifyOnSignal(sg, cb, interface='org.ex.Sig').addBoth(res.append)
            self.net.run()
            assert res and isinstance(res[0], int), res
            self.subs[c].append((mid, sg, res[0]))
        elif name == 'Cancel':
            c, i = args
            ent = [x for x in self.subs[c] if x[0] == i][0]
            self.subs[c].remove(ent)
            self.proxy[c].cancelSignalNotification(ent[2])
            self.net.run()
        elif name == 'Emit':
            e, sg = args
            self.nemit += 1
            if sg == 'S1':
                self.obj[e].emitSignal('S1', '%s:%d' % (e, self.nemit), interface='org.ex.Sig')
            else:
                self.obj[e].emitSignal('S2', self.nemit * 10 + EMITTERS.index(e))
            self.net.run()
        elif name == 'EmitMisfit':
            e, sg = args
            self.nemit += 1
            # the same path / interface / member with a body of another signature
            body, sig = ([7], 'i') if sg == 'S1' else (['seven', 'x'], 'ss')
            self.conn(e).sendMessage(message.SignalMessage('/sig', sg, 'org.ex.Sig', signature=sig, body=body))
            self.net.run()
        else:
            raise ValueError(name)

    def project(self):
        from .tlaval import FnDict
        return {'subs': FnDict({c: tuple({'id': i, 'sig': sg} for i, sg, _ in self.subs[c]) for c in SUBS}),
                'nsub': self.nsub, 'nemit': self.nemit,
                'got': FnDict({c: tuple(self.got[c]) for c in SUBS})}


def make_driver(params, acts):
    return SignalsDriver()


def cfg(maxsub, maxemit, per_rule=True, no_sender=True, props=('OnlySubscribed',), aprops=('CancelledSilent', 'OnceWhenSingle')):
    s = ('SPECIFICATION Spec\nCONSTANTS\n Subs = {"a", "b"}\n Emitters = {"x", "y"}\n Target = "x"\n Sigs = {"S1", "S2"}\n'
         ' MaxSub = %d\n MaxEmit = %d\n PerRuleCopies = %s\n NoSenderFilter = %s\n' % (
             maxsub, maxemit, 'TRUE' if per_rule else 'FALSE', 'TRUE' if no_sender else 'FALSE'))
    s += ''.join('INVARIANT %s\n' % i for i in props) + ''.join('PROPERTY %s\n' % i for i in aprops)
    return s + 'CHECK_DEADLOCK FALSE\n'


def trace_cfg(params=None):
    return ('CONSTANTS\n Subs = {"a", "b"}\n Emitters = {"x", "y"}\n Target = "x"\n Sigs = {"S1", "S2"}\n MaxSub = 1000\n'
            ' MaxEmit = 1000\n PerRuleCopies = TRUE\n NoSenderFilter = TRUE\n')


def rerecord(params, acts):
    drv = make_driver(params, acts)
    tr = [({'n': 'Init'}, drv.project())]
    for n, a in acts:
        drv.apply(n, a)
        rec = {'n': n}
        rec.update(dict(zip(ACTIONS[n], a)))
        tr.append((rec, drv.project()))
    return tr


replay_file = core.replay_file
INVS = ['OnlySubscribed']


def stage(chk, rng, thorough):
    """called from c12.run"""
    # a reference daemon and binding (both deviations off) give once-per-subscription delivery; the code's behaviour
    # (deviations on) must not - otherwise the constants have lost their meaning
    res, _ = tlc.run(BASE, 's.cfg', extra={'s.cfg': cfg(3, 2, False, False, aprops=('CancelledSilent', 'OncePerSubscription'))}, timeout=300)
    chk.tlc_stats(res, 'Signals, reference behaviour')
    if not res.ok:
        chk.violation('model: Signals(reference) %s %s' % res.violation, dict(kind='TLC', trace=repr(res.trace[-3:])))
    res, _ = tlc.run(BASE, 's.cfg', extra={'s.cfg': cfg(3, 2, True, True, aprops=('OncePerSubscription',))}, timeout=300)
    chk.tlc_stats(res, 'Signals, as implemented: OncePerSubscription must fail')
    chk.notes['signals_deviations_violate_OncePerSubscription'] = res.violation is not None
    if res.violation is None:
        raise core.Machinery('Signals: the deviations no longer violate OncePerSubscription')
    ms, me = (4, 3) if thorough else (3, 2)
    res, g = tlc.dump_graph(BASE, 's.cfg', extra={'s.cfg': cfg(ms, me)}, timeout=900)
    chk.tlc_stats(res, 'Signals: 2 subscribers, 2 emitters, 2 signals, %d subscriptions, %d emissions' % (ms, me))
    if not res.ok:
        chk.violation('model: Signals %s %s' % res.violation, dict(kind='TLC', trace=repr(res.trace[-3:])))
    chk.notes['signals_graph'] = [len(g.nodes), g.nedges]
    tours = list(core.edge_cover_tours(g, 12))
    chk.notes['signals_tours'] = len(tours)
    cap = 4000 if thorough else 250
    if len(tours) > cap:
        tours = rng.sample(tours, cap)
    core.replay_paths(chk, g, tours, lambda a: SignalsDriver(), 'signals tours', 'signals', {})
    core.replay_paths(chk, g, list(core.random_walks(g, 1500 if thorough else 120, 9, rng)), lambda a: SignalsDriver(),
                      'signals walks', 'signals', {})
    # code -> spec: longer random histories
    batch = []
    for _ in range(150 if thorough else 25):
        drv = SignalsDriver()
        tr = [({'n': 'Init'}, drv.project())]
        try:
            for _ in range(rng.randint(6, 16)):
                r = rng.random()
                live = [(c, i) for c in SUBS for i, _, _ in drv.subs[c]]
                if r < 0.35:
                    a = ('Subscribe', (rng.choice(SUBS), rng.choice(['S1', 'S2'])))
                elif r < 0.5 and live:
                    a = ('Cancel', rng.choice(live))
                elif r < 0.9:
                    a = ('Emit', (rng.choice(EMITTERS), rng.choice(['S1', 'S2'])))
                else:
                    a = ('EmitMisfit', (rng.choice(EMITTERS), rng.choice(['S1', 'S2'])))
                drv.apply(*a)
                rec = {'n': a[0]}
                rec.update(dict(zip(ACTIONS[a[0]], a[1])))
                tr.append((rec, drv.project()))
        except Exception:
            chk.violation('recording (signals): implementation raised', dict(kind='exception', module='signals',
                                                                          trace=core.traceback_str()))
            break
        batch.append(tr)
    core.validate_and_report(chk, BASE, OBS, ACTIONS, batch, trace_cfg(), INVS, 'signals', {}, 'signals random', nproc=6)
