"""C05 helper: decode hostile messages in a child process under a hard CPU limit, so that work done
inside one C call (a regular expression, a C loop) is measured too and a decode that does not come
back cannot hang the check.  stdin: JSON list of hex strings; stdout: one JSON line per case
{"i": index, "outcome": "value"|"exception", "cpu_ms": n, "mem_kb": peak allocation}, flushed as it goes."""
import binascii
import json
import resource
import sys
import time


def main():
    limit = int(sys.argv[1])
    cases = json.load(sys.stdin)
    resource.setrlimit(resource.RLIMIT_CPU, (limit, limit + 2))
    resource.setrlimit(resource.RLIMIT_AS, (3 << 30, 3 << 30))
    sys.setrecursionlimit(20000)
    from . import fakes  # noqa: F401
    from txdbus import message
    import tracemalloc
    tracemalloc.start()
    for i, hx in enumerate(cases):
        raw = binascii.unhexlify(hx)
        tracemalloc.reset_peak()
        base = tracemalloc.get_traced_memory()[0]
        t = time.process_time()
        try:
            message.parseMessage(raw, [])
            out = 'value'
        except RecursionError:
            out = 'recursion'
        except MemoryError:
            out = 'memory'
        except Exception:
            out = 'exception'
        ms = int((time.process_time() - t) * 1000)
        kb = max(0, tracemalloc.get_traced_memory()[1] - base) // 1024
        sys.stdout.write(json.dumps({'i': i, 'outcome': out, 'cpu_ms': ms, 'mem_kb': kb}) + '\n')
        sys.stdout.flush()


if __name__ == '__main__':
    main()
