"""C02 - encoded bytes are exactly the DBus wire format, in both directions (spec/Wire.tla)."""
from . import wirecheck


def run(tier, seed):
    return wirecheck.run('C02', tier, seed)
