"""C15 - introspection XML round-trips every interface definition.
Spec: spec/Introspect.tla (XML event stream, SAX handler automaton, known-interface cache)."""
import random

from . import fakes  # noqa: F401  (installs the quiet log observer, repo path)
from . import core, tlc, refwire
from .tlaval import norm

from txdbus import interface, introspection, objects

ACTIONS = {'Declare': ('iname', 'd', 'register'), 'ParseXml': ('ids', 'replace')}
OBS = ['objs', 'known', 'result']
NAMES = ('a', 'Ping')        # (the second member is called like a member of an interface every object has)
INAMES = ('t.A', 't.AB')
BASE = 'MC_Introspect'
NOM = {'p': False, 'ins': (), 'outs': ()}
NOS = {'p': False, 'args': ()}
NOP = {'p': False, 'sig': '', 'access': '', 'emits': ''}


class _Conn:
    def __init__(self):
        self.calls = []

    def callRemote(self, path, member, **kw):
        self.calls.append((member, kw))
        return None


class _Handler:
    def __init__(self):
        self.conn = _Conn()


def project_iface(i, declared, names=NAMES):
    """definition record of a real DBusInterface object (Introspect.tla shape)"""
    def split(s):
        try:
            return tuple(refwire.split(s or ''))
        except Exception:
            return ('unsplittable:' + repr(s),)
    meths = {}
    # a second interface of the same remote object declares every name with two arguments: naming interface i in a
    # call must still mean i's own declaration - and nothing at all where i declares no such member
    comp = interface.DBusInterface('org.verif.Companion', *[interface.Method(n, arguments='ii') for n in names], noRegister=True)
    for n in names:
        m = i.methods.get(n)
        if m is None:
            meths[n] = dict(NOM)
            if i.name != comp.name:
                for order in ([i, comp], [comp, i]):
                    h2 = _Handler()
                    ro2 = objects.RemoteDBusObject(h2, 'x.y', '/p', order)
                    try:
                        ro2.callRemote(n, 1, 2, interface=i.name)
                        meths[n] = {'p': True, 'ins': ('proxy accepts a call to a member this interface does not declare',), 'outs': ()}
                    except (TypeError, AttributeError):
                        pass
            continue
        ins, outs = split(m.sigIn), split(m.sigOut)
        if m.nargs != len(ins) or m.nret != len(outs):
            ins = ('nargs=%r nret=%r' % (m.nargs, m.nret),) + ins
        # a proxy built on this interface accepts exactly len(ins) arguments and sends sigIn
        h = _Handler()
        ro = objects.RemoteDBusObject(h, 'x.y', '/p', [i])
        acc = []
        for k in range(len(ins) + 2):
            try:
                ro.callRemote(n, *range(k))
                acc.append(k)
            except (TypeError, AttributeError):
                pass
        if acc != [len(ins)] and not str(ins[:1]).startswith("('nargs"):
            ins = ('proxy accepts %r args' % (acc,),) + ins
        elif h.conn.calls and h.conn.calls[-1][1].get('signature') != (m.sigIn):
            ins = ('proxy sends signature %r' % (h.conn.calls[-1][1].get('signature'),),) + ins
        else:
            for order in ([i, comp], [comp, i]):
                h2 = _Handler()
                ro2 = objects.RemoteDBusObject(h2, 'x.y', '/p', order)
                try:
                    ro2.callRemote(n, *range(len(ins)), interface=i.name)
                    kw = h2.conn.calls[-1][1]
                    if kw.get('interface') != i.name or kw.get('signature') != m.sigIn:
                        ins = ('call naming the interface is sent as %r %r' % (kw.get('interface'), kw.get('signature')),) + ins
                except (TypeError, AttributeError) as ex:
                    if len(ins) != 2 or True:
                        ins = ('call naming the interface is refused (%s)' % type(ex).__name__,) + ins
                if ins and isinstance(ins[0], str) and ins[0].startswith('call naming'):
                    break
        meths[n] = {'p': True, 'ins': ins, 'outs': outs}
    sigs = {}
    for n in names:
        s = i.signals.get(n)
        sigs[n] = dict(NOS) if s is None else {'p': True, 'args': split(s.sig)}
    props = {}
    for n in names:
        p = i.properties.get(n)
        if p is None:
            props[n] = dict(NOP)
        else:
            e = p.emits
            if not declared:
                e = 'yes' if e is True else 'no' if e is False else repr(e)
            props[n] = {'p': True, 'sig': p.sig, 'access': p.access, 'emits': e}
    extra = sorted(set(i.methods) | set(i.signals) | set(i.properties) - set(names)) if False else []
    return {'name': i.name, 'methods': meths, 'signals': sigs, 'props': props, 'declared': declared}


def build_members(d):
    out = []
    for n, m in d['methods'].items():
        if m['p']:
            out.append(interface.Method(n, arguments=''.join(m['ins']), returns=''.join(m['outs'])))
    for n, s in d['signals'].items():
        if s['p']:
            out.append(interface.Signal(n, arguments=''.join(s['args'])))
    for n, p in d['props'].items():
        if p['p']:
            acc = p['access']
            em = {'true': True, 'false': False, 'invalidates': 'invalidates'}[p['emits']]
            out.append(interface.Property(n, p['sig'], readable=acc in ('read', 'readwrite'),
                                          writeable=acc in ('write', 'readwrite'), emitsOnChange=em))
    return out


class IntrospectDriver:
    def __init__(self, init_objs=None, init_known=None):
        self.ki = interface.DBusInterface.knownInterfaces
        for n in list(self.ki):
            if not n.startswith('org.freedesktop.DBus'):
                del self.ki[n]
        self.objs = []        # (real object, declared)
        self.result = ()
        self.kept = []        # (list object returned by an earlier parse, what it held then): results are values -
                              # a proxy keeps the list it was built from, later parses must not change it
        if init_objs:
            for o in init_objs:
                d = o
                reg = bool(init_known and o['name'] in init_known)
                self.do_Declare(o['name'], d, reg)

    def apply(self, name, args):
        getattr(self, 'do_' + name)(*args)

    def do_Declare(self, n, d, register):
        mem = build_members(d)
        # every other definition is built in steps, the way an application extends an interface it already published:
        # members that are shared with another interface, added after the XML was rendered once
        late = mem[-2:] if len(self.objs) % 2 == 1 else []
        first = mem[:len(mem) - len(late)]
        if late:
            interface.DBusInterface('org.verif.Shared', *late, noRegister=True)       # they already belong to this one
        if register:
            i = interface.DBusInterface(n, *first)
        else:
            i = interface.DBusInterface(n, *first, noRegister=True)
        if late:
            i.introspectionXml
            for m in late:
                {interface.Method: i.addMethod, interface.Signal: i.addSignal, interface.Property: i.addProperty}[type(m)](m)
        self.objs.append((i, True))
        self.result = ()

    def do_ParseXml(self, ids, replace):
        ifaces = [self.objs[k - 1][0] for k in ids]
        self.nparse = getattr(self, 'nparse', 0) + 1
        if len(ifaces) >= 2 and self.nparse % 2 == 0:
            # the interfaces are spread over a class and its base class, and an object of the base class was looked at
            # first: the derived object still exports all of them
            base = type('Base', (objects.DBusObject,), {'dbusInterfaces': ifaces[-1:]})
            introspection.generateIntrospectionXML('/b', {'/b': base('/b')})
            cls = type('Exp', (base,), {'dbusInterfaces': ifaces[:-1]})
        else:
            cls = type('Exp', (objects.DBusObject,), {'dbusInterfaces': ifaces})
        o = cls('/p')
        xml = introspection.generateIntrospectionXML('/p', {'/p': o})
        res = introspection.getInterfacesFromXML(xml, replace)
        out = []
        for r in res:
            if r.name.startswith('org.freedesktop.DBus'):
                continue
            idx = [k for k, (x, _) in enumerate(self.objs, 1) if x is r]
            if idx:
                out.append(idx[0])
            else:
                self.objs.append((r, False))
                out.append(len(self.objs))
        self.result = tuple(out)
        # a proxy built from the whole description (the standard interfaces txdbus adds included): a call to a member
        # the exporter declared, made without naming an interface, is a call to that declaration
        declaring = [x for x in res if not x.name.startswith('org.freedesktop.DBus') and 'Ping' in x.methods]
        for r in (declaring if len(declaring) == 1 else []):        # (with several declarations the first in order decides)
            if r.methods['Ping'].nargs in (0, -1):
                continue
            h = _Handler()
            ro = objects.RemoteDBusObject(h, 'x.y', '/p', list(res))
            try:
                ro.callRemote('Ping', *range(r.methods['Ping'].nargs))
                sent_to = h.conn.calls[-1][1].get('interface')
            except (TypeError, AttributeError) as ex:
                sent_to = 'refused (%s)' % type(ex).__name__
            if sent_to not in [x.name for x in res if not x.name.startswith('org.freedesktop.DBus') and 'Ping' in x.methods]:
                self.result = ('a call to the declared member Ping of %s goes to %s' % (r.name, sent_to),)
            break
        self.kept.append((res, [id(r) for r in res], [r.name for r in res]))

    def project(self):
        for res, ids, names in self.kept:
            if [id(r) for r in res] != ids or [r.name for r in res] != names:
                # an earlier result changed after it was handed out: not a value of the model
                return {'objs': tuple(project_iface(o, dcl) for o, dcl in self.objs), 'known': {},
                        'result': ('earlier result mutated', tuple(names), tuple(r.name for r in res))}
        known = {}
        for n, o in self.ki.items():
            if n.startswith('org.freedesktop.DBus'):
                continue
            idx = [k for k, (x, _) in enumerate(self.objs, 1) if x is o]
            known[n] = idx[0] if idx else -1
        from .tlaval import FnDict
        return {'objs': tuple(project_iface(o, dcl) for o, dcl in self.objs),
                'known': FnDict(known), 'result': self.result}


def make_driver(params, acts):
    return IntrospectDriver()


replay_file = core.replay_file


def rerecord(params, acts):
    drv = IntrospectDriver()
    tr = [({'n': 'Init'}, drv.project())]
    for n, args in acts:
        drv.apply(n, args)
        rec = {'n': n}
        rec.update(dict(zip(ACTIONS[n], args)))
        tr.append((rec, drv.project()))
    return tr


def trace_cfg(params=None):
    return ('CONSTANTS\n MNames <- cMNames\n INames <- cINames\n DefPool <- PoolHist\n MaxObjs = 50\n')


TYPES = ['i', 's', 'as', '(s(yy))', 'a{sv}', 'aa{s(iv)}', 'v', '(ii)', 'ay', 'a(ss)', 'x', 'o', 'g', 'a{y(ai)}', 'd', 'b',
         # containers next to each other inside a container
         '((ii)(ss))', '(i(yy)(s)a{sv})', 'a{s((i)(s))}', '(a(ii)(i))']


def rand_def(rng):
    def sigseq():
        return tuple(rng.choice(TYPES) for _ in range(rng.choice([0, 1, 1, 2, 3, 5])))
    d = {'name': '-', 'methods': {}, 'signals': {}, 'props': {}}
    for n in NAMES:
        d['methods'][n] = {'p': True, 'ins': sigseq(), 'outs': sigseq()} if rng.random() < 0.6 else dict(NOM)
        d['signals'][n] = {'p': True, 'args': sigseq()} if rng.random() < 0.5 else dict(NOS)
        d['props'][n] = {'p': True, 'sig': rng.choice(TYPES), 'access': rng.choice(['read', 'write', 'readwrite']),
                         'emits': rng.choice(['true', 'false', 'invalidates'])} if rng.random() < 0.6 else dict(NOP)
    return d


def record_random(rng, nsteps):
    drv = IntrospectDriver()
    tr = [({'n': 'Init'}, drv.project())]
    for _ in range(nsteps):
        declared = [k for k, (o, dcl) in enumerate(drv.objs, 1) if dcl]
        if not declared or rng.random() < 0.45:
            a = ('Declare', (rng.choice(['t.A', 't.AB', 't.C', 't.D']), rand_def(rng), rng.random() < 0.6))
        else:
            k = rng.choice([1, 1, 2, 3])
            ids = []
            names = set()
            for c in rng.sample(declared, min(k, len(declared))):
                if drv.objs[c - 1][0].name not in names:
                    names.add(drv.objs[c - 1][0].name)
                    ids.append(c)
            a = ('ParseXml', (tuple(ids), rng.random() < 0.4))
        drv.apply(*a)
        rec = {'n': a[0]}
        rec.update(dict(zip(ACTIONS[a[0]], a[1])))
        tr.append((rec, drv.project()))
    return tr


def run(tier, seed):
    chk = core.Check('C15', tier, seed)
    rng = random.Random(seed)
    thorough = tier == 'thorough'
    # 1. history machine: model check + graph, replay paths
    res, g = tlc.dump_graph(BASE, 'MC_Introspect_hist.cfg', timeout=900)
    chk.tlc_stats(res, 'Introspect history (2 names, 2 definitions, <= 4 objects)')
    if not res.ok:
        chk.violation('model: Introspect %s %s' % res.violation, dict(kind='TLC', trace=repr(res.trace[-2:])))
    paths = list(core.edge_cover_paths(g))
    if not thorough:
        rng.shuffle(paths)
        paths = paths[:2500]
    core.replay_paths(chk, g, paths, lambda acts: IntrospectDriver(), 'hist-edges', 'c15', {})
    walks = list(core.random_walks(g, 4000 if thorough else 600, 6, rng))
    core.replay_paths(chk, g, walks, lambda acts: IntrospectDriver(), 'hist-walks', 'c15', {})
    chk.notes['hist_graph'] = [len(g.nodes), g.nedges]
    # 2. wide definition space, single parse (generator style)
    res, gw = tlc.dump_graph(BASE, 'MC_Introspect_wide.cfg', timeout=900)
    chk.tlc_stats(res, 'Introspect wide definition space')
    if not res.ok:
        chk.violation('model: Introspect(wide) %s %s' % res.violation, dict(kind='TLC', trace=repr(res.trace[-2:])))
    n = 0
    nbad = 0
    for init in gw.init:
        st0 = gw.nodes[init]
        for lab, dst in gw.succ.get(init, ()):
            if not thorough and (n % 3):
                n += 1
                continue
            n += 1
            o = st0['objs'][0]
            drv = IntrospectDriver()
            try:
                drv.do_Declare(o['name'], o, bool(st0['known']))
                got0 = drv.project()
                drv.apply(lab[0], lab[1])
                got = drv.project()
            except Exception as ex:
                got0, got = st0, {'exception': core.traceback_str()}
            dif = core.diff_states(st0, got0) or core.diff_states(gw.nodes[dst], got) or \
                ([('exception', '', got['exception'])] if 'exception' in got else [])
            chk.traces += 1
            if dif:
                nbad += 1
                if nbad <= 5:
                    chk.violation('wide: after %s(replace=%s) of one definition impl differs from model in %s' % (
                        lab[0], lab[1][1], ','.join(sorted(set(d[0] for d in dif)))),
                        dict(kind='spec->code', module='c15', definition=repr(o), action=repr(lab),
                             diff=[(k, repr(a)[:600], repr(b)[:600]) for k, a, b in dif]))
    chk.notes['wide_cases_replayed'] = chk.traces
    # 3. code -> spec: random definitions (types from the full grammar), longer histories, 4 names
    batch = []
    for i in range(400 if thorough else 80):
        try:
            batch.append(record_random(rng, rng.randint(3, 9)))
        except Exception:
            chk.violation('recording: implementation raised', dict(kind='exception', module='c15', trace=core.traceback_str()))
            break
    core.validate_and_report(chk, BASE, OBS, ACTIONS, batch, trace_cfg(), ['KnownPointsToNamesake'], 'c15', {}, 'random',
                             nproc=8)
    chk.sample({'recorded': [a for a, s in batch[0]][:3]})
    # 3b. "interfaces already known locally are reused": known is known, whether or not the application still holds the
    # object it registered (the model's `known` does not depend on who else refers to a definition)
    import gc
    interface.DBusInterface('org.verif.Ephemeral', interface.Method('Kept', arguments='s'))
    gc.collect()
    other = type('E', (objects.DBusObject,), {'dbusInterfaces': [interface.DBusInterface(
        'org.verif.Ephemeral', interface.Method('FromThePeer', arguments='i'), noRegister=True)]})('/e')
    got = [r for r in introspection.getInterfacesFromXML(introspection.generateIntrospectionXML('/e', {'/e': other}), False)
           if r.name == 'org.verif.Ephemeral']
    chk.traces += 1
    if len(got) != 1 or sorted(got[0].methods) != ['Kept']:
        chk.violation('an interface registered earlier and no longer referred to by the application is not reused: parsed %r' % (
            [sorted(r.methods) for r in got],), dict(kind='case', module='c15'))
    interface.DBusInterface.knownInterfaces.pop('org.verif.Ephemeral', None)
    # 4. canary: a parsed property recorded with another access mode
    tr = None
    for cand in batch:
        for j, (a, st) in enumerate(cand):
            if a['n'] == 'ParseXml' and any((not o['declared']) and any(p['p'] for p in o['props'].values()) for o in st['objs']):
                tr = [list(x) for x in cand[:j + 1]]
                break
        if tr:
            break
    if tr:
        st = dict(tr[-1][1])
        objs = []
        done = False
        for o in st['objs']:
            o = dict(o)
            if not o['declared'] and not done:
                props = {}
                for n_, p in o['props'].items():
                    p = dict(p)
                    if p['p'] and not done:
                        p['access'] = 'read' if p['access'] != 'read' else 'write'
                        done = True
                    props[n_] = p
                o['props'] = props
            objs.append(o)
        st['objs'] = tuple(objs)
        tr[-1] = (tr[-1][0], st)
        rej, _ = core.validate_traces(BASE, OBS, [[tuple(x) for x in tr]], ACTIONS, cfg_consts=trace_cfg(), nproc=1)
        chk.canary = {'what': 'access mode of one parsed property changed in a recorded state', 'rejected': bool(rej)}
    chk.assumptions = ['complete types are opaque strings in the model (splitting is C19); standard org.freedesktop.DBus.* '
                       'interfaces present in every document are filtered from the projection',
                       'the change-notification mode is compared as the parser keeps it (emits anything / nothing)']
    return chk.finish(
        rule='history machine (declare / parse with and without replacement, 2 names, <= 4 objects) explored '
             'exhaustively, every edge and random walks replayed on real DBusInterface / getInterfacesFromXML with object '
             'identity tracked; 5544 definitions x register x replace parsed once; random definitions over 16 types and '
             'longer histories validated by TLC; proxies built on parsed interfaces are probed for accepted argument counts',
        exhaustive=False)
