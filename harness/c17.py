"""C17 - remote property access honours declared type and access mode.  Spec: spec/Props.tla."""
import random
import struct

from . import fakes  # noqa: F401  (installs the quiet log observer, repo path)
from . import core, tlc
from .tlaval import to_tla

from txdbus import objects, interface, message, marshal

ACTIONS = {'Assign': ('p', 'v'), 'Get': ('ia', 'na'), 'SetP': ('ia', 'na', 'v'), 'GetAll': ('ia',)}
OBS = ['reply', 'sigs']
PROPIF = 'org.freedesktop.DBus.Properties'

# id -> (iface, name, sig, access, emits, attribute, defined on base class?)
DECL = {
    1: ('org.v.I1', 'level', 'i', 'readwrite', 'true', 'level1', True),
    2: ('org.v.I2', 'level', 'u', 'read', 'false', 'level2', True),
    3: ('org.v.I1', 'name', 's', 'read', 'invalidates', 'name', True),
    4: ('org.v.I1', 'secret', 'y', 'write', 'true', 'secret', False),
    5: ('org.v.I1', 'ratio', 'd', 'readwrite', 'false', 'ratio', False),
    6: ('org.v.I2', 'flag', 'b', 'readwrite', 'true', 'flag', False),
    # interface + name spell the same string as declaration 3 ('org.v.I1' + 'name'): two different properties
    # (an array of strings: its values include arrays of exactly one element)
    7: ('org.v.I1n', 'ame', 'as', 'readwrite', 'false', 'ame', False),
    # an object path: a string on the Python side, its own type on the wire
    8: ('org.v.I2', 'where', 'o', 'readwrite', 'true', 'where', False),
}
# zero, the empty string and False are values like any other
CONCRETE = {'i': [9, 10, 0, 12], 'u': [0, 20, 21, 22], 's': ['n0', '', 'n2', 'n3'], 'y': [0, 1, 2, 3],
            'd': [0, 5, 2.5, 7], 'b': [False, True, False, True], 'as': [['n0'], ['a', 'b'], ['c'], ['n3', '']],
            'o': ['/', '/a', '/a/b_1', '/x']}
WRAP = {'i': marshal.Int32, 'u': marshal.UInt32, 's': str, 'y': marshal.Byte, 'd': float, 'b': marshal.Boolean, 'as': list, 'o': marshal.ObjectPath}


def concrete(p, v):
    return CONCRETE[DECL[p][2]][v]


def value_id(p, x, last):
    """abstract id of a concrete value of property p (ids may share a concrete value: prefer `last`)"""
    vals = CONCRETE[DECL[p][2]]
    if last is not None and last < len(vals) and vals[last] == x and type(vals[last]) in (type(x), float, int, bool):
        return last
    for i, c in enumerate(vals):
        if c == x:
            return i
    return 99


# how the declarations are spread over a class and its base class (invisible remotely):
#   ifaces = (dbusInterfaces of the base class, of the subclass); sub = ids declared on the subclass;
#   anon = ids whose DBusProperty does not name its interface; order = order of the initial assignments
LAYOUTS = {
    'base-both': dict(ifaces=(('org.v.I1', 'org.v.I2', 'org.v.I1n'), ()), sub=(4, 5, 6, 8), anon=(), order=(1, 2, 3, 4, 5, 6, 7, 8)),
    'split': dict(ifaces=(('org.v.I1',), ('org.v.I2', 'org.v.I1n')), sub=(2, 6, 7, 8), anon=(), order=(8, 1, 2, 3, 4, 5, 6, 7)),
    'split-rev': dict(ifaces=(('org.v.I2', 'org.v.I1n'), ('org.v.I1',)), sub=(1, 3, 4, 5, 8), anon=(), order=(7, 6, 5, 4, 8, 3, 2, 1)),
    'sub-first': dict(ifaces=(('org.v.I1',), ('org.v.I2', 'org.v.I1n')), sub=(2, 6, 7, 8), anon=(3, 4, 5, 6, 7), order=(2, 6, 5, 1, 7, 3, 4, 8)),
    'anon': dict(ifaces=((), ('org.v.I2', 'org.v.I1', 'org.v.I1n')), sub=(1, 3, 5), anon=(3, 4, 5, 6, 8), order=(4, 3, 1, 6, 2, 5, 7, 8)),
    # the `sub` declarations live in a plain mixin class listed AFTER the DBusObject-derived base: class Sub(Base, Mixin)
    'mixin': dict(ifaces=(('org.v.I1', 'org.v.I2', 'org.v.I1n'), ()), sub=(2, 3, 6, 8), anon=(), order=(3, 1, 2, 7, 6, 8, 5, 4), mixin=True),
}


def build_classes(layout='base-both'):
    lay = LAYOUTS[layout]

    def prop(pid):
        iface, name, sig, access, emits, attr, base = DECL[pid]
        return interface.Property(name, sig, readable=access in ('read', 'readwrite'), writeable=access in ('write', 'readwrite'),
                                  emitsOnChange={'true': True, 'false': False, 'invalidates': 'invalidates'}[emits])
    # the process also knows interfaces of these names with OTHER declarations (say, from introspecting an older peer):
    # what an object answers must come from the interfaces its class lists
    for n in sorted(set(d[0] for d in DECL.values())):
        interface.DBusInterface(n, *[interface.Property(DECL[p][1], 's', readable=DECL[p][3] == 'write', writeable=False,
                                                        emitsOnChange=DECL[p][4] != 'true')
                                     for p in DECL if DECL[p][0] == n])
    ifs = {n: interface.DBusInterface(n, *[prop(p) for p in DECL if DECL[p][0] == n], noRegister=True)
           for n in sorted(set(d[0] for d in DECL.values()))}
    base_attrs = {}
    sub_attrs = {}
    if lay['ifaces'][0]:
        base_attrs['dbusInterfaces'] = [ifs[n] for n in lay['ifaces'][0]]
    if lay['ifaces'][1]:
        sub_attrs['dbusInterfaces'] = [ifs[n] for n in lay['ifaces'][1]]
    for pid, (iface, name, sig, access, emits, attr, base) in DECL.items():
        d = objects.DBusProperty(name) if pid in lay['anon'] else objects.DBusProperty(name, interface=iface)
        (sub_attrs if pid in lay['sub'] else base_attrs)[attr] = d
    # the object also has an interface of its own with a member called Get (a key/value store), implemented by a method
    # named dbus_Get and bound to that interface: org.freedesktop.DBus.Properties.Get is not that member
    store_if = interface.DBusInterface('org.v.Store', interface.Method('Get', arguments='ss', returns='v'),
                                       interface.Method('Set', arguments='ssv', returns=''), noRegister=True)
    target = base_attrs if 'dbusInterfaces' in base_attrs else sub_attrs
    target['dbusInterfaces'] = list(target.get('dbusInterfaces', [])) + [store_if]

    @objects.dbusMethod('org.v.Store', 'Get')
    def dbus_Get(self, a, b):
        return 'from the store'

    @objects.dbusMethod('org.v.Store', 'Set')
    def dbus_Set(self, a, b, v):
        self.store_was_set = True
    target['dbus_Get'] = dbus_Get
    target['dbus_Set'] = dbus_Set
    Base = type('Base', (objects.DBusObject,), base_attrs)
    if layout in ('split', 'anon'):
        # a constructor that sets a property before it initialises the base class: the value stays
        first_pid = lay['order'][0]

        def __init__(self, path, _attr=DECL[first_pid][5], _v=concrete(first_pid, 0)):
            setattr(self, _attr, _v)
            Base.__init__(self, path)
        sub_attrs['__init__'] = __init__
    if lay.get('mixin'):
        Mixin = type('Mixin', (object,), sub_attrs)
        return type('Sub', (Base, Mixin), {})
    Sub = type('Sub', (Base,), sub_attrs)
    return Sub


def data_module():
    rows = []
    for pid, (iface, name, sig, access, emits, attr, base) in DECL.items():
        rows.append('%d :> [iface |-> "%s", name |-> "%s", sig |-> "%s", access |-> "%s", emits |-> "%s"]' % (
            pid, iface, name, sig, access, emits))
    return '---- MODULE PropsData ----\nEXTENDS TLC\nProps == %s\n====\n' % ' @@ '.join(rows)


class Conn:
    def __init__(self):
        self.sent = []

    def sendMessage(self, m):
        self.sent.append(m)


def variant_sigs(raw_body, sig):
    """variant signatures inside a reply body of signature 'v' or 'a{sv}' (independent scan)"""
    out = []
    if sig == 'v':
        n = raw_body[0]
        return [raw_body[1:1 + n].decode()]
    # a{sv}
    total = struct.unpack('<I', raw_body[0:4])[0]
    pos = 8
    end = 8 + total
    while pos < end:
        pos += (8 - pos % 8) % 8
        n = struct.unpack('<I', raw_body[pos:pos + 4])[0]
        key = raw_body[pos + 4:pos + 4 + n].decode()
        pos += 4 + n + 1
        sl = raw_body[pos]
        vs = raw_body[pos + 1:pos + 1 + sl].decode()
        pos += 1 + sl + 1
        size = {'i': 4, 'u': 4, 'y': 1, 'd': 8, 'b': 4}.get(vs)
        if vs in ('s', 'o'):
            pos += (4 - pos % 4) % 4
            n2 = struct.unpack('<I', raw_body[pos:pos + 4])[0]
            pos += 4 + n2 + 1
        elif vs == 'as':
            pos += (4 - pos % 4) % 4
            n2 = struct.unpack('<I', raw_body[pos:pos + 4])[0]
            pos += 4 + n2
        elif size:
            pos += (size - pos % size) % size
            pos += size
        else:
            out.append((key, '?' + vs))
            break
        out.append((key, vs))
    return out


class PropsDriver:
    def __init__(self, layout='base-both'):
        self.conn = Conn()
        self.h = objects.DBusObjectHandler(self.conn)
        Sub = build_classes(layout)
        self.o = Sub('/obj')
        # a second object of the same class lives beside it with other values; both are looked at before anything
        # is assigned ("is it set yet?"): whatever one object stores must never show through the other
        self.twin = Sub('/twin')
        for obj in (self.o, self.twin):
            for pid in LAYOUTS[layout]['order']:
                if pid not in LAYOUTS[layout]['anon'] or obj is self.twin:
                    getattr(obj, DECL[pid][5])
        early = LAYOUTS[layout]['order'][0] if layout in ('split', 'anon') else None
        for pid in LAYOUTS[layout]['order']:
            if pid != early:                 # that one was assigned by the constructor, before the base class was initialised
                setattr(self.o, DECL[pid][5], concrete(pid, 0))
        for pid in LAYOUTS[layout]['order']:
            setattr(self.twin, DECL[pid][5], concrete(pid, 3))
        # an object of the BASE class was asked for every property first (it lacks the ones the subclass declares): what
        # is unknown there says nothing about the subclass
        try:
            base_obj = Sub.__bases__[0]('/base')
            hb = objects.DBusObjectHandler(Conn())
            hb.exportObject(base_obj)
            for pid, (iface, name, sig, access, emits, attr, base) in DECL.items():
                for ia in (iface, ''):
                    c = message.MethodCallMessage('/base', 'Get', interface=PROPIF, destination=':1.2', signature='ss', body=[ia, name])
                    pm = message.parseMessage(c.rawMessage, [])
                    pm.sender = ':1.8'
                    hb.handleMethodCallMessage(pm)
        except Exception:
            pass                  # (whatever the base class makes of that is not what is being checked)
        # the object was first offered on another connection of the process and withdrawn from it again after this
        # connection had taken it over: what it announces goes out here
        self.conn0 = Conn()
        self.h0 = objects.DBusObjectHandler(self.conn0)
        self.h0.exportObject(self.o)
        self.h.exportObject(self.o)
        self.h0.unexportObject('/obj')
        del self.conn.sent[:]
        self.reply = {'k': 'none'}
        self.sigs = ()
        self.last = {p: 0 for p in DECL}

    def call(self, member, sig, body):
        c = message.MethodCallMessage('/obj', member, interface=PROPIF, destination=':1.2', signature=sig, body=body)
        pm = message.parseMessage(c.rawMessage, [])
        pm.sender = ':1.9'
        self.h.handleMethodCallMessage(pm)
        return pm

    def apply(self, name, args):
        del self.conn.sent[:]
        self.reply = {'k': 'none'}
        if name == 'Assign':
            p, v = args
            self.last[p] = v
            setattr(self.o, DECL[p][5], concrete(p, v))
            replies = []
        else:
            if name == 'Get':
                c = self.call('Get', 'ss', list(args))
            elif name == 'SetP':
                ia, na, v = args
                # the caller sends a value of the type declared for the property it means (if any)
                cand = [p for p in DECL if DECL[p][1] == na and (ia == '' or DECL[p][0] == ia)]
                p = cand[0] if cand else 1
                x = concrete(p, v)
                self.pending_set = (cand, v)
                c = self.call('Set', 'ssv', [ia, na, WRAP[DECL[p][2]](x)])
            else:
                c = self.call('GetAll', 's', [args[0]])
            replies = [message.parseMessage(m.rawMessage, []) for m in self.conn.sent if m._messageType in (2, 3)]
            if len(replies) != 1 or replies[0].reply_serial != c.serial:
                self.reply = {'k': '%d replies' % len(replies)}
            elif replies[0]._messageType == 3:
                self.reply = {'k': 'error'}
            elif name == 'Get':
                ia, na = args
                cand = [p for p in DECL if DECL[p][1] == na and (ia == '' or DECL[p][0] == ia)]
                vs = variant_sigs(replies[0].rawBody, 'v')[0]
                p = cand[0] if cand else 1
                self.reply = {'k': 'value', 'type': vs, 'v': value_id(p, replies[0].body[0], self.last[p])}
            elif name == 'SetP':
                self.reply = {'k': 'ok'} if not replies[0].body else {'k': 'ok with body'}
                cand, v = self.pending_set
                if len(cand) == 1:
                    self.last[cand[0]] = v
            else:
                ia = args[0]
                types = dict(variant_sigs(replies[0].rawBody, 'a{sv}')) if replies[0].rawBody else {}
                props = set()
                for k, x in (replies[0].body[0] or {}).items():
                    cand = [p for p in DECL if DECL[p][1] == k and DECL[p][0] == ia]
                    p = cand[0] if cand else 1
                    props.add(core_freeze({'name': k, 'type': types.get(k, '?'), 'v': value_id(p, x, self.last[p])}))
                self.reply = {'k': 'all', 'props': frozenset(props)}
        sg = []
        for m in self.conn.sent:
            if m._messageType == 4:
                pm = message.parseMessage(m.rawMessage, [])
                if pm.member != 'PropertiesChanged' or pm.interface != PROPIF or pm.path != '/obj':
                    sg.append({'iface': 'unexpected signal ' + str(pm.member), 'name': '-', 'v': 0})
                    continue
                ia, changed, inval = pm.body
                for k, x in changed.items():
                    cand = [p for p in DECL if DECL[p][1] == k and DECL[p][0] == ia]
                    p = cand[0] if cand else 1
                    sg.append({'iface': ia, 'name': k, 'v': value_id(p, x, self.last[p])})
                for k in inval:
                    sg.append({'iface': ia, 'name': k, 'v': 98})
        self.sigs = tuple(sg)

    def project(self):
        return {'reply': self.reply, 'sigs': self.sigs}


class _Frozen(dict):
    def __hash__(self):
        return hash(frozenset(self.items()))


def core_freeze(d):
    return _Frozen(d)


def make_driver(params, acts):
    return PropsDriver((params or {}).get('layout', 'base-both'))


replay_file = core.replay_file


def trace_cfg(params=None):
    return 'CONSTANTS\n MaxVal = 3\n'


def rerecord(params, acts):
    drv = make_driver(params, acts)
    tr = [({'n': 'Init'}, drv.project())]
    for n, a in acts:
        drv.apply(n, a)
        rec = {'n': n}
        rec.update(dict(zip(ACTIONS[n], a)))
        tr.append((rec, drv.project()))
    return tr


def run(tier, seed):
    chk = core.Check('C17', tier, seed)
    rng = random.Random(seed)
    thorough = tier == 'thorough'
    extra = {'PropsData.tla': data_module()}
    cfg = ('SPECIFICATION Spec\nCONSTANTS\n MaxVal = %d\nINVARIANT NeverRevealed\nINVARIANT SignalOnlyIfDeclared\n'
           'PROPERTY ReadOnlyStable\nCHECK_DEADLOCK FALSE\n')
    mv = 1
    if thorough:
        # three values per property: checked by TLC (no graph: with eight declarations it has tens of millions of edges);
        # the graph that is replayed is the two-valued one in both tiers
        res3, _ = tlc.run('Props', 'p3.cfg', extra=dict(extra, **{'p3.cfg': cfg % 2}), timeout=3000)
        chk.tlc_stats(res3, 'Props: 8 declarations, values 0..2, all histories (checked, not dumped)')
        if not res3.ok:
            chk.violation('model: Props(0..2) %s %s' % res3.violation, dict(kind='TLC', trace=repr(res3.trace[-2:])))
    res, g = tlc.dump_graph('Props', 'p.cfg', extra=dict(extra, **{'p.cfg': cfg % mv}), timeout=900)
    chk.tlc_stats(res, 'Props: 8 declarations, values 0..%d, all histories' % mv)
    if not res.ok:
        chk.violation('model: Props %s %s' % res.violation, dict(kind='TLC', trace=repr(res.trace[-2:])))
    chk.notes['graph'] = [len(g.nodes), g.nedges]
    paths = list(core.edge_cover_paths(g))
    cap = 20000 if thorough else 3000
    for lay in LAYOUTS:
        ps = paths if len(paths) <= cap else rng.sample(paths, cap)
        core.replay_paths(chk, g, ps, lambda acts, lay=lay: PropsDriver(lay), 'edges/' + lay, 'c17', {'layout': lay})
        core.replay_paths(chk, g, list(core.random_walks(g, 2000 if thorough else 300, 10, rng)),
                          lambda acts, lay=lay: PropsDriver(lay), 'walks/' + lay, 'c17', {'layout': lay})
    # a remote Set whose variant holds a value of ANOTHER type than the property declares is not a successful Set: it is
    # answered with an error and changes nothing - Get goes on returning the last value, typed as declared, and GetAll
    # goes on working for everybody
    for lay in ('base-both', 'anon'):
        drv = PropsDriver(lay)
        bad = []
        for pid, wrong in ((1, 'hello'), (1, marshal.ObjectPath('/x')), (5, 'much'), (8, marshal.Int32(5)), (7, marshal.Int32(3))):
            iface, name, sig = DECL[pid][0], DECL[pid][1], DECL[pid][2]
            drv.apply('Get', (iface, name))
            before = dict(drv.reply)
            c = drv.call('Set', 'ssv', [iface, name, wrong])
            replies = [message.parseMessage(m.rawMessage, []) for m in drv.conn.sent if m._messageType in (2, 3)]
            if not replies or replies[-1]._messageType != 3:
                bad.append('Set(%s %s declared %s, %r) is not refused' % (iface, name, sig, wrong))
            drv.apply('Get', (iface, name))
            if drv.reply != before:
                bad.append('Get(%s %s) after the refused Set: %r, before %r' % (iface, name, drv.reply, before))
            drv.apply('GetAll', (iface,))
            if drv.reply.get('k') != 'all':
                bad.append('GetAll(%s) after the refused Set: %r' % (iface, drv.reply))
        chk.traces += 1
        if bad:
            chk.violation('layout %s: %s' % (lay, bad[0]), dict(kind='case', module='c17', layout=lay, all=bad[:6]))

    # code -> spec: random histories with all three values
    ifaces = ['org.v.I1', 'org.v.I2', 'org.v.I1n', '', 'x.Unknown']
    names = ['level', 'name', 'secret', 'ratio', 'flag', 'ame', 'nope']
    batches = {}
    for i in range(300 if thorough else 75):
        lay = list(LAYOUTS)[i % len(LAYOUTS)]
        acts = []
        for _ in range(rng.randint(4, 14)):
            r = rng.random()
            if r < 0.3:
                acts.append(('Assign', (rng.choice(list(DECL)), rng.randint(1, 3))))
            elif r < 0.55:
                ia, na = rng.choice(ifaces), rng.choice(names)
                if ia == '' and na == 'level':
                    continue
                acts.append(('Get', (ia, na)))
            elif r < 0.8:
                ia, na = rng.choice(ifaces), rng.choice(names)
                if ia == '' and na == 'level':
                    continue
                acts.append(('SetP', (ia, na, rng.randint(1, 3))))
            else:
                acts.append(('GetAll', (rng.choice(['org.v.I1', 'org.v.I2', 'org.v.I1n', 'x.Unknown']),)))
        try:
            batches.setdefault(lay, []).append(rerecord({'layout': lay}, acts))
        except Exception:
            chk.violation('recording: implementation raised (layout %s)' % lay,
                          dict(kind='exception', module='c17', params={'layout': lay}, acts=[list(a) for a in acts],
                               trace=core.traceback_str()))
            break
    batch = []
    for lay, b in batches.items():
        batch.extend(b)
    for lay, b in batches.items():
        core.validate_and_report(chk, 'Props', OBS, ACTIONS, b, trace_cfg(), ['NeverRevealed', 'SignalOnlyIfDeclared'], 'c17',
                                 {'layout': lay}, 'random/' + lay, nproc=4, extra=extra)
    chk.sample({'recorded': [a for a, s in batch[0]][:6]})
    tr = [list(x) for x in rerecord({}, [('Assign', (1, 2)), ('Get', ('org.v.I1', 'level')), ('GetAll', ('org.v.I2',))])]
    for j, (a, st) in enumerate(tr):
        if st['reply'].get('k') == 'value':
            tr[j] = (a, dict(st, reply=dict(st['reply'], type='x')))
            break
    rej, _ = core.validate_traces('Props', OBS, [[tuple(x) for x in tr]], ACTIONS, cfg_consts=trace_cfg(), nproc=1, extra=extra)
    chk.canary = {'what': 'variant type of one recorded Get reply changed', 'rejected': bool(rej)}
    chk.notes['layouts'] = list(LAYOUTS)
    chk.assumptions = ['one object with eight declarations (same name on two interfaces, two declarations whose interface + name concatenate to the same string, all access modes, all notification modes, '
                       'basic types i u s y d b incl. a double holding a Python int) in five class layouts: both interfaces on '
                       'the base class; one interface per class (either way round, the same-named property split between base '
                       'class and subclass); descriptors that do not name their interface; different first-assignment orders',
                       'interface "" is only used with names declared once']
    return chk.finish(
        rule='all histories of local assignment and remote Get/Set/GetAll (right, empty and unknown interface; right and unknown '
             'property) over eight declarations are explored by TLC; every edge and random walks are replayed through '
             'handleMethodCallMessage with the variant type read from the raw reply bytes and PropertiesChanged taken from '
             'sendMessage; random histories with more values are validated by TLC',
        exhaustive=True)
