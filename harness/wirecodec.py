"""Conversions between the value representation of spec/Wire.tla and Python values accepted /
produced by txdbus.marshal, plus a random generator of cases beyond the model bounds."""
import struct

from txdbus import marshal

FIXED = {'y': (1, False), 'n': (2, True), 'q': (2, False), 'i': (4, True), 'u': (4, False),
         'x': (8, True), 't': (8, False)}
WRAP = {'y': marshal.Byte, 'b': marshal.Boolean, 'n': marshal.Int16, 'q': marshal.UInt16, 'i': marshal.Int32,
        'u': marshal.UInt32, 'x': marshal.Int64, 't': marshal.UInt64, 'g': marshal.Signature,
        'o': marshal.ObjectPath}


def sig(T):
    c = T[0]
    if c == 'seq':
        return ''.join(sig(t) for t in T[1])
    if c == 'a':
        return 'a' + sig(T[1])
    if c == '(':
        return '(' + ''.join(sig(t) for t in T[1]) + ')'
    if c == '{':
        return '{' + sig(T[1]) + sig(T[2]) + '}'
    return c


class TList(list):
    """list / dict / tuple carrying an explicit DBus signature (for use inside variants)"""


class TDict(dict):
    pass


class TTuple(tuple):
    pass


class DbusOrder:
    """struct given as an object declaring its field order"""

    def __init__(self, vals):
        self.dbusOrder = ['f%d' % i for i in range(len(vals))]
        for n, v in zip(self.dbusOrder, vals):
            setattr(self, n, v)


class TupleOrder(tuple):
    """struct given as a tuple subclass (think namedtuple) that declares its field order - which is not the order of
    its positions"""

    def __new__(cls, vals):
        self = tuple.__new__(cls, tuple(reversed(vals)))
        self.dbusOrder = ['f%d' % i for i in range(len(vals))]
        for n, v in zip(self.dbusOrder, vals):
            setattr(self, n, v)
        return self


def to_py(T, v, in_variant=False, style=0):
    """TLA value -> Python value to hand to marshal().  in_variant: the value must make sigFromPy
    infer exactly sig(T).  style rotates between equivalent Python spellings (list/tuple/object
    structs, bytearray for ay)."""
    c = T[0]
    if c in FIXED:
        n, signed = FIXED[c]
        x = int.from_bytes(bytes(v), 'little', signed=signed)
        return WRAP[c](x) if in_variant else x
    if c == 'b':
        x = bool(int.from_bytes(bytes(v), 'little'))
        if not in_variant and style >= 4:
            # a BOOLEAN is given as any Python value and taken by its truth: the wire word is 1 or 0 all the same
            return (2 if style == 4 else 256) if x else 0
        return marshal.Boolean(x) if in_variant else x
    if c == 'd':
        return struct.unpack('<d', bytes(v))[0]
    if c in 'so':
        s = bytes(v).decode('utf-8')
        return marshal.ObjectPath(s) if (c == 'o' and in_variant) else s
    if c == 'g':
        s = bytes(v).decode('ascii')
        return marshal.Signature(s) if in_variant else s
    if c == 'v':
        return to_py(v[0], v[1], True, style)
    if c == 'a':
        E = T[1]
        if E[0] == '{':
            d = TDict() if in_variant else {}
            for k, w in v:
                d[to_py(E[1], k, False, style)] = to_py(E[2], w, False, style)
            if in_variant:
                d.dbusSignature = sig(T)
            return d
        items = [to_py(E, x, False, style) for x in v]
        if in_variant:
            l = TList(items)
            l.dbusSignature = sig(T)
            return l
        if E[0] == 'y' and style % 2 == 1:
            return bytearray(items)
        if style % 3 == 2:
            return tuple(items)
        return items
    if c == '(':
        items = [to_py(t, x, False, style) for t, x in zip(T[1], v)]
        if in_variant:
            t = TTuple(items)
            t.dbusSignature = sig(T)
            return t
        if style % 3 == 1:
            return tuple(items)
        if style == 5 and len(items) > 1:
            return TupleOrder(items)
        if style % 3 == 2:
            return DbusOrder(items)
        return items
    raise ValueError(T)


class Mismatch(Exception):
    pass


def from_py(T, x):
    """Python value returned by unmarshal() -> TLA value, directed by the expected type; raises
    Mismatch when the Python value cannot be a decoding of that type."""
    c = T[0]
    if c in FIXED:
        n, signed = FIXED[c]
        if isinstance(x, bool) or not isinstance(x, int):
            raise Mismatch('expected int for %s, got %r' % (c, x))
        try:
            return tuple(x.to_bytes(n, 'little', signed=signed))
        except OverflowError:
            raise Mismatch('out of range for %s: %r' % (c, x))
    if c == 'b':
        if not isinstance(x, bool):
            raise Mismatch('expected bool, got %r' % (x,))
        return (1, 0, 0, 0) if x else (0, 0, 0, 0)
    if c == 'd':
        if not isinstance(x, float):
            raise Mismatch('expected float, got %r' % (x,))
        return tuple(struct.pack('<d', x))
    if c in 'sog':
        if not isinstance(x, str):
            raise Mismatch('expected str, got %r' % (x,))
        return tuple(x.encode('utf-8'))
    if c == 'v':
        raise Mismatch('variant needs the expected content')
    if c == 'a':
        E = T[1]
        if E[0] == '{':
            if not isinstance(x, dict):
                raise Mismatch('expected dict, got %r' % (x,))
            return tuple((from_py_v(E[1], k, None), None) for k in x)   # placeholder, see from_py_v
        if not isinstance(x, list):
            raise Mismatch('expected list, got %r' % (x,))
        return tuple(from_py(E, e) for e in x)
    if c == '(':
        if not isinstance(x, list) or len(x) != len(T[1]):
            raise Mismatch('expected list of %d, got %r' % (len(T[1]), x))
        return tuple(from_py(t, e) for t, e in zip(T[1], x))
    raise ValueError(T)


def from_py_v(T, x, expect):
    """like from_py but `expect` (the TLA value that was encoded) supplies the content type of
    variants, which the decoder does not return."""
    c = T[0]
    if c == 'v':
        if not (isinstance(expect, tuple) and len(expect) == 2):
            raise Mismatch('no expectation for variant')
        return (expect[0], from_py_v(expect[0], x, expect[1]))
    if c == 'a':
        E = T[1]
        if E[0] == '{':
            if not isinstance(x, dict):
                raise Mismatch('expected dict, got %r' % (x,))
            items = list(x.items())
            out = []
            for i, (k, w) in enumerate(items):
                ek, ew = (expect[i] if isinstance(expect, tuple) and i < len(expect) else (None, None))
                out.append((from_py_v(E[1], k, ek), from_py_v(E[2], w, ew)))
            return tuple(out)
        if not isinstance(x, list):
            raise Mismatch('expected list, got %r' % (x,))
        return tuple(from_py_v(E, e, expect[i] if isinstance(expect, tuple) and i < len(expect) else None)
                     for i, e in enumerate(x))
    if c == '(':
        if not isinstance(x, list) or len(x) != len(T[1]):
            raise Mismatch('expected list of %d, got %r' % (len(T[1]), x))
        return tuple(from_py_v(t, e, expect[i] if isinstance(expect, tuple) and i < len(expect) else None)
                     for i, (t, e) in enumerate(zip(T[1], x)))
    return from_py(T, x)


# ----------------------------------------------------------------------------------------------
# random cases beyond the model bounds (TLA representation)

BASIC = 'ybnqiuxtdsog'
STRS = ['', 'a', 'hello', 'é€', '😀b', 'x' * 40, 'tab\tnl\n', 'ÿĀ￿', '\ufeff', '\ufeffbom first', 'in\ufeffside']
PATHS = ['/', '/a', '/a/b0', '/org/freedesktop/DBus', '/_/x_1']
SIGS = ['', 'i', 'a{sv}', '(ii)', 'aay', 'a(ss)v']


def rand_type(rng, depth, key=False):
    if key:
        return (rng.choice('ybnqiuxtso'),)      # no double keys: 0.0 == -0.0 and NaN != NaN in Python dicts
    r = rng.random()
    if depth <= 0 or r < 0.45:
        return (rng.choice(BASIC + 'v'),)
    if r < 0.65:
        return ('a', rand_type(rng, depth - 1))
    if r < 0.85:
        return ('(', tuple(rand_type(rng, depth - 1) for _ in range(rng.randint(1, 4))))
    return ('a', ('{', rand_type(rng, 0, key=True), rand_type(rng, depth - 1)))


def rand_value(rng, T, depth=0):
    c = T[0]
    if c in FIXED or c == 'd' or c == 'b':
        if c == 'b':
            return rng.choice([(0, 0, 0, 0), (1, 0, 0, 0)])
        n = 8 if c == 'd' else FIXED[c][0]
        if c == 'd':
            return tuple(struct.pack('<d', rng.choice([0.0, -0.0, 1.5, -2.25e300, 5e-324, float('inf'),
                                                        float('-inf'), float('nan'), rng.random()])))
        k = rng.random()
        if k < 0.25:
            return tuple([0] * n)
        if k < 0.5:
            return tuple([255] * n)
        if k < 0.6:
            return tuple([0] * (n - 1) + [128])
        if k < 0.7:
            return tuple([255] * (n - 1) + [127])
        return tuple(rng.randrange(256) for _ in range(n))
    if c == 's':
        return tuple(rng.choice(STRS).encode('utf-8'))
    if c == 'o':
        return tuple(rng.choice(PATHS).encode())
    if c == 'g':
        return tuple(rng.choice(SIGS).encode())
    if c == 'v':
        t = rand_type(rng, max(0, 2 - depth))
        while t[0] == 'v':       # txdbus cannot express a variant directly inside a variant when encoding
            t = rand_type(rng, max(0, 2 - depth))
        return (t, rand_value(rng, t, depth + 1))
    if c == 'a':
        E = T[1]
        n = rng.choice([0, 0, 1, 2, 3, 5, 17])
        if depth > 1:
            n = min(n, 2)
        if E[0] == '{':
            out = {}
            for _ in range(n):
                k = rand_value(rng, E[1], depth + 1)
                if E[1][0] == 'd' and k[7] & 0x7f == 0x7f and (k[6] & 0xf0) == 0xf0 and (k[6] & 0x0f or any(k[:6])):
                    continue      # NaN keys are never equal to themselves
                out[k] = rand_value(rng, E[2], depth + 1)
            return tuple(out.items())
        return tuple(rand_value(rng, E, depth + 1) for _ in range(n))
    if c == '(':
        return tuple(rand_value(rng, t, depth + 1) for t in T[1])
    raise ValueError(T)


def deep_type(rng, kind, n):
    """maximal nesting: n arrays / n structs around a basic type"""
    T = (rng.choice('yixs'),)
    for _ in range(n):
        T = ('a', T) if kind == 'a' else ('(', (T,))
    return T


def deep_value(T):
    c = T[0]
    if c == 'a':
        return (deep_value(T[1]),)
    if c == '(':
        return (deep_value(T[1][0]),)
    if c == 's':
        return (120,)
    return tuple([1] * (FIXED[c][0]))


def has_vv(T, v):
    """does the value contain a variant whose content is itself a variant?  (decodable, but not
    expressible through txdbus's Python value conventions when encoding)"""
    c = T[0]
    if c == 'v':
        return v[0][0] == 'v' or has_vv(v[0], v[1])
    if c == 'a':
        return any(has_vv(T[1], x) for x in v)
    if c == '{':
        return has_vv(T[1], v[0]) or has_vv(T[2], v[1])
    if c in ('(', 'seq'):
        return any(has_vv(t, x) for t, x in zip(T[1], v))
    return False
