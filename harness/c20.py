"""C20 - file descriptors stay attached to the message that carried them.
Receiving side: spec/Framing.tla (FdArrive / Read, Attribution, QueueTail).
Sending side: spec/FdSend.tla.  The two are chained: what a real sender writes becomes the stream
of a Framing instance that a real receiver consumes under random schedules."""
import random
import struct

from . import refwire, core, tlc, framing, fakes
from .framing import Instance, mk_msg, INVS_C04, INVS_C20, OBS_FD, ACTIONS
from .tlaval import to_tla

from txdbus import message

INVS = INVS_C04 + INVS_C20
SACTIONS = {'Send': ()}


class FdDriver(framing.FramingDriver):
    fdq_verdict = True


def fd_instance():
    return Instance('none', [], [
        mk_msg('empty', 1),
        mk_msg('ret', 2, fds=1, wrap='v'),
        mk_msg('call', 3, fds=3, hperm=(2, 0, 1), endian='B'),
        mk_msg('empty', 4, endian='B'),
        mk_msg('sig', 5, fds=2, hperm=(1, 0)),
        mk_msg('err', 6, fds=1, endian='B'),
    ], 'fd')


def fd_handshake_instance():
    # descriptors may arrive while the receiver is still in line mode (same read as BEGIN)
    return Instance('server', [b'AUTH ANONYMOUS', b'BEGIN'], [
        mk_msg('call', 1, fds=2), mk_msg('sig', 2, fds=1, endian='B', wrap='none'), mk_msg('call', 3, fds=1),
    ], 'fdh')


def boundaries(inst):
    pts = set()
    pos = inst.lead + sum(len(l) + 2 for l in inst.lines)
    pts.add(pos)
    for raw, nf, _ in inst.msgs:
        for d in (1, 15, 16, 17, len(raw) // 2, len(raw) - 1, len(raw)):
            pts.add(pos + d)
        pos += len(raw)
    return sorted(p for p in pts if 0 < p < inst.n)


def placements(inst, cuts):
    """all ways to interleave FdArrive events before the reads ending at `cuts` (last = n) that obey
    the stream rule"""
    ends = []
    pos = inst.lead + sum(len(l) + 2 for l in inst.lines)
    for raw, nf, _ in inst.msgs:
        pos += len(raw)
        ends.append((pos, nf))
    total = inst.total_fds
    need = [sum(nf for e, nf in ends if e <= c) for c in cuts]

    def rec(i, arrived):
        if i == len(cuts):
            yield []
            return
        for a in range(max(arrived, need[i]), total + 1):
            for rest in rec(i + 1, a):
                yield [a] + rest
    for arr in rec(0, 0):
        acts = []
        have = 0
        prev = 0
        for c, a in zip(cuts, arr):
            acts += [('FdArrive', ())] * (a - have)
            have = a
            acts.append(('Read', (c - prev,)))
            prev = c
        yield acts


def make_driver(params, acts):
    inst = {'fd': fd_instance, 'fdh': fd_handshake_instance}[params['inst']]()
    return FdDriver(inst, params.get('kind', 'stub'))


replay_file = core.replay_file


class SendDriver:
    """real client connection; Send = callRemote / sendMessage with the planned descriptors"""

    def __init__(self, plan):
        self.plan = plan
        fakes.install_clock()
        self.conn, self.t, _ = fakes.ready_client(unix=True)
        self.sent = 0

    def apply(self, name, args):
        i = self.sent + 1
        fds = list(self.plan[i - 1])
        # alternate between the two public ways of sending and between the places a descriptor can sit in a body:
        # plain arguments, inside a struct, as array elements, as dict values
        shape = i % 5
        if shape == 1:
            sig, body = ''.join('h' for _ in fds) + 's', fds + ['t%d' % i]
        elif shape == 2:
            sig, body = 's' + ''.join('h' for _ in fds), ['t%d' % i] + fds
        elif shape == 3:
            sig, body = '(s' + ''.join('h' for _ in fds) + ')s', [tuple(['t%d' % i] + fds), 'u']
        elif shape == 4:
            sig, body = 'sah', ['t%d' % i, fds]
        else:
            sig, body = 'a{sh}s', [dict(('k%d' % j, fd) for j, fd in enumerate(fds)), 't%d' % i]
        nlog = len(self.t.log)
        if any(not isinstance(x, int) or x < 0 for x in fds):
            # a descriptor the library may well refuse: then nothing of that message - none of its descriptors either -
            # has been handed to the transport
            res = []
            try:
                d = self.conn.callRemote('/p%d' % i, 'M%d' % i, interface='org.ex.I', destination='org.ex.D',
                                         signature=sig, body=body, expectReply=False)
                d.addErrback(res.append)
            except Exception as ex:
                res.append(ex)
            if res:
                self.refused = True
                stray = [e for e in self.t.log[nlog:] if e[0] == 'fd']
                assert not stray, 'a refused message left its descriptors %r on the transport' % ([e[1] for e in stray],)
        elif i % 2:
            self.conn.callRemote('/p%d' % i, 'M%d' % i, interface='org.ex.I', destination='org.ex.D',
                                 signature=sig, body=body, expectReply=(i % 3 != 0))
        else:
            # a message object that was sent before with the same descriptors is sent again as it is (a retry)
            key = (shape, tuple(fds))
            self.kept = getattr(self, 'kept', {})
            m = self.kept.get(key)
            if m is None:
                m = message.MethodCallMessage('/p%d' % i, 'M%d' % i, interface='org.ex.I', signature=sig,
                                              body=body, oobFDs=[])
                self.kept[key] = m
            self.conn.sendMessage(m)
        self.sent = i

    def project(self):
        wire = []
        i = 0
        for e in self.t.log:
            if e[0] == 'fd':
                wire.append({'k': 'fd', 'fd': e[1]})
            elif e[0] == 'bytes':
                for raw in fakes.split_messages(e[1]):
                    i += 1
                    declared, idx = header_fds(raw)
                    wire.append({'k': 'msg', 'i': i, 'declared': declared, 'idx': tuple(idx)})
        return {'sent': self.sent, 'wire': tuple(wire)}


def header_fds(raw):
    """(declared unix_fds count, descriptor indexes carried by the UNIX_FD arguments) read from the
    raw bytes independently of txdbus.message"""
    e = '<' if raw[0:1] == b'l' else '>'
    harr = struct.unpack(e + 'I', raw[12:16])[0]
    pos = 16
    end = 16 + harr
    declared = 0
    sig = ''
    while pos < end:
        pos += (8 - pos % 8) % 8
        code = raw[pos]
        slen = raw[pos + 1]
        vsig = raw[pos + 2:pos + 2 + slen].decode()
        pos += 2 + slen + 1
        if vsig in ('s', 'o'):
            pos += (4 - pos % 4) % 4
            n = struct.unpack(e + 'I', raw[pos:pos + 4])[0]
            pos += 4 + n + 1
        elif vsig == 'g':
            n = raw[pos]
            if code == 8:
                sig = raw[pos + 1:pos + 1 + n].decode()
            pos += 1 + n + 1
        elif vsig == 'u':
            pos += (4 - pos % 4) % 4
            v = struct.unpack(e + 'I', raw[pos:pos + 4])[0]
            if code == 9:
                declared = v
            pos += 4
        else:
            raise ValueError('header field type %r' % vsig)
    body = end + (8 - end % 8) % 8
    idx = []
    pos = [body]

    def al(n):
        pos[0] += (n - pos[0] % n) % n

    def u32():
        al(4)
        v = struct.unpack(e + 'I', raw[pos[0]:pos[0] + 4])[0]
        pos[0] += 4
        return v

    def scan(t):
        c = t[0]
        if c == 'h':
            idx.append(u32())
        elif c == 's':
            n = u32()
            pos[0] += n + 1
        elif c in '({':
            al(8)
            for x in refwire.split(t[1:-1]):
                scan(x)
        elif c == 'a':
            n = u32()
            el = t[1:]
            if el[0] in '({':
                al(8)
            stop = pos[0] + n
            while pos[0] < stop:
                scan(el)
        else:
            raise ValueError('body type %r' % t)
    for t in refwire.split(sig):
        scan(t)
    return declared, idx


def send_cfg(plan, invs=True):
    mod = '---- MODULE MC_FdSend ----\nEXTENDS FdSend, Integers\niPlan == %s\n====\n' % to_tla(tuple(tuple(p) for p in plan))
    cfg = 'CONSTANTS\n Plan <- iPlan\n'
    return mod, cfg


def run(tier, seed):
    chk = core.Check('C20', tier, seed)
    rng = random.Random(seed)
    thorough = tier == 'thorough'
    # ---- receiving side: exhaustive graph of the descriptor instance, systematic + sampled replays
    for inst in (fd_instance(), fd_handshake_instance()):
        g = framing.model_graph(chk, inst, INVS, 'Framing/' + inst.tag, timeout=1200)
        chk.notes[inst.tag + '_graph'] = [len(g.nodes), g.nedges]
        pts = boundaries(inst)
        acts_list = []
        cutsets = [[inst.n]] + [[a, inst.n] for a in pts] + \
            [[a, b, inst.n] for a in pts for b in pts if a < b]
        for cuts in cutsets:
            acts_list.extend(placements(inst, cuts))
        if not thorough and len(acts_list) > 5000:
            acts_list = rng.sample(acts_list, 5000)
        for _ in range(3000 if thorough else 400):
            acts_list.append(framing.with_fds(rng, inst, framing.random_partition(rng, inst.n, 'small')))
        n = 0
        for acts in acts_list:
            ids = framing.walk(g, acts)
            states = [g.nodes[i] for i in ids]
            failed, dif, steps = core.step_compare(lambda a: FdDriver(inst, 'stub'), acts, states)
            n += 1
            if failed is not None:
                chk.violation('replay %s: after %s impl differs from model in %s' % (
                    inst.tag, acts[failed - 1][0] if failed else 'Init', ','.join(sorted(set(d[0] for d in dif)))),
                    dict(kind='spec->code', module='c20', params={'inst': inst.tag}, failed_step=failed,
                         actions=[[a[0], to_tla(tuple(a[1]))] for a in acts],
                         model_states=[to_tla(s) for s in states],
                         diff=[(k, repr(a), repr(b)) for k, a, b in dif]))
                if len(chk.violations) >= 5:
                    break
            elif n <= 2:
                chk.sample({'replayed(%s)' % inst.tag: [[a[0]] + list(a[1]) for a in acts]})
        chk.traces += n
        chk.notes[inst.tag + '_replayed'] = n
    # ---- sending side + chain into a receiver
    plans = [
        [[5], [], [7, 8, 9], [6, 6], []],
        [[5, 7, 7], [3], [9, 9, 9]],
        [[], [4, 5], [5, 4], [1]],
        # one descriptor passed twice in a message with another in between
        [[5, 6, 5], [7], [8, 9, 8, 9]],
        # a message one of whose descriptors is no descriptor at all
        [[5, -1], [7]], [[4], [6, 5, -1, 3], [2]],
        # the 2nd and the 12th message are the same object sent twice (same shape, same descriptors)
        [[1], [4], [], [2], [], [], [3, 3], [], [], [], [], [4]],
    ]
    for _ in range(20 if thorough else 4):
        plans.append([[rng.randint(3, 12) for _ in range(rng.choice([0, 1, 2, 3]))] for _ in range(rng.randint(2, 6))])
    for pi, plan in enumerate(plans):
        mod, cfg = send_cfg(plan)
        extra = {'MC_FdSend.tla': mod,
                 'MC_FdSend.cfg': 'SPECIFICATION Spec\n' + cfg + 'INVARIANT FdsAhead\nINVARIANT NoStrayFds\nCHECK_DEADLOCK FALSE\n'}
        if pi < 3:
            res, _ = tlc.run('MC_FdSend', 'MC_FdSend.cfg', extra=extra, workers=2)
            chk.tlc_stats(res, 'FdSend/plan%d' % pi)
            if not res.ok:
                chk.violation('model: FdSend %s %s' % res.violation, dict(kind='TLC'))
        try:
            drv = SendDriver(plan)
            tr = [({'n': 'Init'}, drv.project())]
            for _ in plan:
                drv.apply('Send', ())
                tr.append(({'n': 'Send'}, drv.project()))
        except Exception as ex:
            chk.violation('sender raised %s for plan %r' % (type(ex).__name__, plan),
                          dict(kind='exception', module='c20', trace=core.traceback_str()))
            continue
        if getattr(drv, 'refused', False):
            continue              # (a message the library refused is outside FdSend.tla; the driver checked what was left behind)
        core.validate_and_report(chk, 'MC_FdSend', ['sent', 'wire'], SACTIONS, [tr], cfg, ['FdsAhead', 'NoStrayFds'],
                                 'c20', {'plan': plan}, 'send plan %r' % (plan,), nproc=1,
                                 extra={'MC_FdSend.tla': mod})
        # chain: the sender's wire is the stream of a receiver instance
        msgs = []
        fdvals = []
        ok = True
        for e in drv.t.log:
            if e[0] == 'fd':
                fdvals.append(e[1])
            elif e[0] == 'bytes':
                for raw in fakes.split_messages(e[1]):
                    declared, idx = header_fds(raw)
                    if any(i >= declared for i in idx):
                        ok = False
                    msgs.append((raw, declared, idx))
        if not ok or sum(m[1] for m in msgs) != len(fdvals):
            continue        # already reported by the FdSend validation above
        inst = Instance('none', [], msgs, 'chain%d' % pi)
        batch = []
        finals = []
        for _ in range(6 if thorough else 3):
            acts = framing.with_fds(rng, inst, framing.random_partition(rng, inst.n, rng.choice(['small', 'big', 'one'])))
            d = FdDriver(inst, 'stub')
            # descriptor number d travels as FD0 + d; remember which real number it stands for
            tr2 = [({'n': 'Init'}, d.project())]
            for name, args in acts:
                d.apply(name, args)
                rec = {'n': name}
                rec.update(dict(zip(ACTIONS[name], args)))
                tr2.append((rec, d.project()))
            batch.append(tr2)
            finals.append(d)
        name = 'Framing'
        core.validate_and_report(chk, name, OBS_FD, ACTIONS, batch, inst.cfg([], spec=False), INVS, 'c20',
                                 {'plan': plan}, 'chain plan %r' % (plan,), nproc=len(batch),
                                 extra={'FramingData.tla': inst.module(name, 1)})
        # what the receiver resolved, translated back to the sender's numbers, equals the plan
        for d in finals:
            got = [[fdvals[x - 1] if 0 < x <= len(fdvals) else None for x in r] for r in d.project()['resolved']]
            if got != [list(p) for p in plan]:
                chk.violation('end to end: receiver resolved %r for plan %r' % (got, plan),
                              dict(kind='end-to-end', module='c20', plan=plan, got=got))
    chk.sample({'send_plans': plans[:3]})
    # ---- a burst: the descriptors of many messages (more than any one message may carry) are all there before the
    # first byte is read; every message still gets its own
    binst = Instance('none', [], [mk_msg('call', i, fds=3, hperm=((2, 0, 1) if i % 2 else None), endian='lB'[i % 2]) for i in range(1, 9)], 'burst')
    batch = []
    for sty in ('one', 'big', 'mixed'):
        reads = framing.random_partition(rng, binst.n, sty)
        d = FdDriver(binst, 'stub')
        tr2 = [({'n': 'Init'}, d.project())]
        for name_, args in [('FdArrive', ())] * binst.total_fds + [('Read', (k,)) for k in reads]:
            d.apply(name_, args)
            rec = {'n': name_}
            rec.update(dict(zip(ACTIONS[name_], args)))
            tr2.append((rec, d.project()))
        batch.append(tr2)
    core.validate_and_report(chk, 'Framing', OBS_FD, ACTIONS, batch, binst.cfg([], spec=False), INVS, 'c20',
                             {'inst': 'burst'}, 'burst of %d descriptors ahead of the bytes' % binst.total_fds, nproc=len(batch),
                             extra={'FramingData.tla': binst.module('Framing', 1)})
    # ---- a message of a type this version of the protocol does not define, carrying a descriptor, in front of an
    # ordinary one.  Outside Framing.tla's alphabet (the implementation gives the connection up there, which ends the
    # history); whatever it does, Attribution still binds what it delivers: the second message resolves to its OWN
    # descriptor or is not delivered at all
    unknown = bytearray(mk_msg('call', 1, fds=1)[0])
    unknown[1] = 7
    second = mk_msg('call', 2, fds=1)[0]
    for cut in (None, 20, len(unknown), len(unknown) + 30):
        d = FdDriver(Instance('none', [], [(bytes(unknown), 1, [0]), (second, 1, [0])], 'unknown-type'), 'stub')
        try:
            d.apply('FdArrive', ())
            d.apply('FdArrive', ())
            stream = bytes(unknown) + second
            for part in ([stream] if cut is None else [stream[:cut], stream[cut:]]):
                d.p.dataReceived(part)
        except Exception:
            pass                  # Twisted drops the connection: nothing more is delivered
        ser2 = struct.unpack_from('<I', second, 8)[0]
        res = [(m.body[0] - framing.FD0 if isinstance(m.body[0], int) else m.body[0],) for m in d.p.parsed
               if m.serial == ser2 and m.body]
        chk.traces += 1
        if res and tuple(res[0]) != (2,):
            chk.violation('a message of an undefined type carrying a descriptor, then a call: the call resolved its descriptor argument to %r '
                          '(its own is number 2)' % (res[0],), dict(kind='case', module='c20', cut=cut, resolved=repr(res)))
    # ---- canary
    inst = fd_instance()
    acts = list(placements(inst, [inst.n]))[0]
    tr = framing.record(inst, 'stub', acts)
    # claim one descriptor fewer was queued before the read
    j = max(i for i, (a, s) in enumerate(tr) if a['n'] == 'FdArrive')
    st = dict(tr[j][1])
    st['nfd'] = st['nfd'] - 1
    tr[j] = (tr[j][0], st)
    name = 'Framing'
    rej, _ = core.validate_traces(name, framing.OBS, [tr], ACTIONS, cfg_consts=inst.cfg([], spec=False), nproc=1,
                                  extra={'FramingData.tla': inst.module(name, 1)})
    chk.canary = {'what': 'one FdArrive event recorded without its effect', 'rejected': bool(rej)}
    chk.assumptions = ['descriptors are plain integers on in-memory transports (no kernel involved)',
                       'the stream-socket rule of the property is the enabling condition of Read in Framing.tla',
                       '_receivedFDs is compared (named in the property anchors)']
    return chk.finish(
        rule='TLC explores all interleavings of descriptor arrival and reads over the descriptor instance; '
             'double cuts at message-relative positions x every legal arrival placement (sampled in quick) are '
             'replayed into a real protocol; real senders are validated against FdSend.tla and their output is '
             'chained into a receiver validated against Framing.tla',
        exhaustive=False)
