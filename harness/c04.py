"""C04 - message framing is independent of how the byte stream is split into reads.
Spec: spec/Framing.tla (instances generated from concrete messages)."""
import random

from . import core, tlc, framing
from .framing import Instance, mk_msg, INVS_C04, INVS_C20, OBS, ACTIONS

BASE = None
INVS = INVS_C04 + INVS_C20


def instances(tier):
    out = {}
    # client role, two handshake lines, messages of mixed byte order; CR LF planted in header
    # (serial 0x0A0D) and in bodies (text containing "\r\nBEGIN\r\n")
    out['cli'] = Instance('client', [b'DATA 00', b'OK 1234'], [
        mk_msg('sig', 1, crlf=True),
        mk_msg('call', 2, endian='B'),
        mk_msg('ret', 3, serial=0x0A0D),
        mk_msg('empty', 4, endian='B', serial=0x0D0A0D0A),
    ], 'cli')
    out['srv'] = Instance('server', [b'AUTH ANONYMOUS 00', b'BEGIN'], [
        mk_msg('call', 1, serial=0x0A0D0A0D),
        mk_msg('err', 2, endian='B', crlf=True),
        mk_msg('empty', 3),
    ], 'srv')
    out['bin'] = Instance('none', [], [
        mk_msg('empty', 1), mk_msg('sig', 2, endian='B', pad=3), mk_msg('empty', 3, endian='B'),
        mk_msg('ret', 4, pad=11, serial=0x0A0D),
    ], 'bin')
    out['real'] = Instance('client', [b'REJECTED EXTERNAL', b'OK 1234'], [
        mk_msg('sig', 1, crlf=True), mk_msg('ret', 2, endian='B'), mk_msg('empty', 3, serial=0x0A0D),
    ], 'real')
    return out


def cut_paths(n, tier, rng):
    """every single cut, every double cut (sampled in quick), byte-at-a-time, all-at-once"""
    paths = [[n], [1] * n]
    for a in range(1, n):
        paths.append([a, n - a])
    doubles = [(a, b) for a in range(1, n) for b in range(a + 1, n)]
    if tier == 'quick' and len(doubles) > 4000:
        doubles = rng.sample(doubles, 4000)
    for a, b in doubles:
        paths.append([a, b - a, n - b])
    return paths


def make_driver(params, acts):
    inst = instances('quick')[params['inst']]
    return framing.FramingDriver(inst, params['kind'])


replay_file = core.replay_file


def long_instance(rng, nmsgs, role, tag):
    kinds = ['sig', 'call', 'ret', 'err', 'empty']
    msgs = []
    for i in range(1, nmsgs + 1):
        msgs.append(mk_msg(rng.choice(kinds), i, endian=rng.choice('lB'), crlf=rng.random() < 0.2,
                           pad=rng.choice([0, 0, 1, 5, 40]),
                           serial=rng.choice([None, 0x0A0D, 0x0D0A0D0A]) if i % 7 == 0 else None))
    lines = {'client': [b'OK 1234'], 'server': [b'AUTH x', b'BEGIN'], 'none': []}[role]
    return Instance(role, lines, msgs, tag)


def run(tier, seed, pid='C04'):
    chk = core.Check(pid, tier, seed)
    rng = random.Random(seed)
    thorough = tier == 'thorough'
    insts = instances(tier)
    # 1+2: exhaustive model check of each instance (all partitions) + replay of cut paths
    for tag, inst in insts.items():
        kind = 'real' if tag == 'real' else 'stub'
        g = framing.model_graph(chk, inst, INVS, 'Framing/' + tag)
        acts_list = [[('Read', (k,)) for k in p] for p in cut_paths(inst.n, tier, rng)]
        framing.replay_acts(chk, g, inst, kind, acts_list, tag, pid)
        chk.notes[tag + '_stream_bytes'] = inst.n
        chk.notes[tag + '_graph'] = [len(g.nodes), g.nedges]
    # 3: code -> spec: long streams, extreme coalescing, random partitions
    sizes = [(1200, 'none'), (300, 'client'), (200, 'server')] if not thorough else \
        [(5000, 'none'), (2500, 'client'), (1500, 'server'), (800, 'none')]
    # few messages, one of them far bigger than the longest handshake line allowed (16 KiB): joined with the final
    # handshake line in one read, its bytes are message data, not an over-long line
    sizes = sizes + [(3, 'bigclient'), (3, 'bigserver')]
    # (the greatest message the protocol allows takes a few copies of 128 MiB to build, feed and keep: only where there
    # is room for that)
    try:
        avail_kb = int([l for l in open('/proc/meminfo') if l.startswith('MemAvailable')][0].split()[1])
    except Exception:
        avail_kb = 0
    if avail_kb >= 6 * 1024 * 1024:
        sizes = sizes + [(3, 'limit')]
    chk.notes['limit_instance'] = 'run' if avail_kb >= 6 * 1024 * 1024 else 'skipped: less than 6 GiB of memory available'
    for j, (nm, role) in enumerate(sizes):
        if role == 'limit':
            # a message of exactly the greatest length the protocol allows (2^27 bytes) between two small ones
            base = len(mk_msg('call', 2)[0])
            inst = Instance('none', [], [mk_msg('sig', 1), mk_msg('call', 2, pad=2 ** 27 - base), mk_msg('ret', 3)], 'limit')
            assert len(inst.msgs[1][0]) == 2 ** 27, len(inst.msgs[1][0])
        elif role.startswith('big'):
            r = role[3:]
            inst = Instance(r, {'client': [b'OK 1234'], 'server': [b'AUTH x', b'BEGIN']}[r],
                            [mk_msg('sig', 1, pad=rng.choice([17000, 40000]), crlf=True), mk_msg('call', 2, endian='B'),
                             mk_msg('ret', 3, pad=16500)], 'big%d' % j)
        else:
            inst = long_instance(rng, nm, role, 'long%d' % j)
        styles = ['one', 'mixed', 'big', 'mixed', 'big', 'small' if nm <= 300 else 'big']
        if thorough:
            styles = styles * 3
        if role == 'limit':
            o = len(inst.msgs[0][0])
            styles = [[inst.n], [o + 7, inst.n - o - 7], [o + 4096, inst.n - o - 4096]]
        batch = []
        for sty in styles:
            reads = sty if isinstance(sty, list) else framing.random_partition(rng, inst.n, sty)
            try:
                batch.append(framing.record(inst, 'stub', [('Read', (k,)) for k in reads]))
            except Exception as ex:
                chk.violation('recording %s-message stream (%s, %s reads): implementation raised %s' % (
                    nm, sty, len(reads), type(ex).__name__),
                    dict(kind='exception', module='c04', nmsgs=nm, style=sty, trace=core.traceback_str()))
        name = 'Framing'
        core.validate_and_report(chk, name, OBS, ACTIONS, batch, inst.cfg([], spec=False), INVS, pid.lower(),
                                 {'inst': inst.tag}, 'long/%d msgs/%s' % (nm, role), nproc=len(batch),
                                 extra={'FramingData.tla': inst.module(name, 1)})
        chk.sample({'recorded': 'stream of %d messages (%d bytes), read sizes %s...' % (
            nm, inst.n, [a['k'] for a, s in batch[-1][1:8]])})
    # 4: canary
    inst = insts['bin']
    tr = framing.record(inst, 'stub', [('Read', (k,)) for k in [inst.n // 2, inst.n - inst.n // 2]])
    a, st = tr[1]
    st = dict(st)
    st['batch'] = tuple(st['batch'][:-1])
    tr[1] = (a, st)
    name = 'Framing'
    rej, _ = core.validate_traces(name, OBS, [tr], ACTIONS, cfg_consts=inst.cfg([], spec=False), nproc=1,
                                  extra={'FramingData.tla': inst.module(name, 1)})
    chk.canary = {'what': 'one delivered message dropped from a recorded step', 'rejected': bool(rej)}
    chk.assumptions = ['stub authenticator (succeeds at the last handshake line) except instance "real"',
                       'messages are built with txdbus itself; their content is checked by C03',
                       'buffer length / pending length read from _buffer/_nextMsgLen as diagnostics']
    return chk.finish(
        rule='TLC explores every partition of each instance stream (state = bytes read); every single cut, '
             'double cuts, 1-byte reads and whole-stream reads are replayed into a real protocol object; long '
             'streams (up to 1200/5000 messages in one read) are recorded and validated by TLC',
        exhaustive=False)
